#!/usr/bin/env python3
"""Regenerate MANIFEST.json from the table below (claimed checks) + not_applicable list."""
import json, os
V = os.path.dirname(os.path.dirname(os.path.abspath(__file__)))
NOTE = ("Trusted base: rustc nightly front end as driven by /verif/driver (typed HIR + MIR facts of the real cargo build of /repo's working tree), "
        "the may-depend flow evaluator and the obligation/pairing tables in /verif/rules. Decides structural necessary conditions only; the behavioural statement itself is not decided.")
CLAIMED = {
 'C01': ('generator read-set vs declared-dependency data-flow over all SimpleGenerator impls, transcript alignment prover~verifier, quotient-domain obligations, sibling guard-signature comparison',
         'Static: all 24 witness generators read only targets derived from what dependencies() declares; prover and verifier transcripts align; the prover evaluates Z_H / points on the quotient coset; base and extension arithmetic folding shortcuts have identical (operand, guard) signatures. That proving succeeds with correct outputs for every program/input/configuration is behavioural and not decided.', '5/C01'),
 'C02': ('obligation tables over typed HIR data-flow (native PLONK verifier, three vanishing evaluators, gate filter, public-input wiring, copy-class handling), call-order rules',
         'Static: the quotient identity is checked for every challenge with all openings and challenges entering the vanishing evaluation; all four vanishing term groups and alpha reach the value returned by each of the three evaluators; the selector filter multiplies every gate constraint; every gate is evaluated; the public-input hash is wired to the PublicInputGate; conflicting copy-class assignments are refused; sigma is built from merged, compressed classes. Sufficiency of the constraint system is not decided.', '5/C02'),
 'C03': ('dead-field analysis over the verifier closure (typed HIR data-flow), type-driven length-pin coverage, FRI/PLONK obligation tables',
         'Static: every leaf field of the proof type family reaches an absorption, an Err-guard or a Merkle check; every length is pinned for equality; all FRI/PLONK verifier checks exist, are unconditional, propagate errors and are fed by the proof data they bind; the preprocessed cap comes from the verifier data; the compressed path pins the public-input count and shares the final verifier. Known finding D3 (compressed proof shape unvalidated). Value-level binding (Fiat-Shamir, collision resistance) is not decided.', '5/C03'),
 'C04': ('transcript extraction (ordered observe/squeeze events with all challenger-taking callees inlined), completeness against type-checker-enumerated struct fields, protocol ordering table, three-way sequence alignment, sponge typestate',
         'Static: native and in-circuit verifier transcripts (PLONK, STARK) absorb every statement and proof field (query answers excepted); each challenge is squeezed after the messages it must follow; prover, verifier and circuit transcripts align event by event (reviewed padding asymmetry); duplex-sponge typestate; sponge state private to the challenger. Hash/random-oracle behaviour is not decided.', '5/C04'),
 'C05': ('obligation tables over typed HIR data-flow (native FRI + batch FRI verifiers), zip-partner length pinning',
         'Static: every soundness-critical check of fri::verifier and batch_fri::verifier exists, propagates its error, depends on the proof/challenge data it must depend on, ranges over the whole sequence, and no checking loop can be truncated by an unpinned zip partner. Necessary conditions of C05; sufficiency of the checks (algebra) is not decided.', '5/C05'),
 'C06': ('twin obligation tables (native check <-> in-circuit assertion sink with corresponding sources), transcript alignment, field-coverage of witness-assignment routines, opening-order comparison',
         'Static: every native PLONK/FRI/Merkle check has an unconditional in-circuit twin fed by the corresponding targets (incl. the variable-degree FRI variant); the in-circuit transcript aligns with the native one; set_proof_with_pis_target/set_verifier_data_target write every target field from the same-named value field; native and target opening sets are flattened in the same order. Equality of the accepted sets is not decided.', '5/C06'),
 'C07': ('per-gate accessor data-flow (typed HIR with gate-local inlining): generator-used wire accessors must reach emitted constraints in each evaluator; cross-evaluator set agreement; branch-balanced counter lint',
         'Static: for all 16 gates, every wire accessor read or written by the gate\'s generators flows into a constraint emitted by each of its evaluators (extension, base/packed, circuit); the evaluators constrain the same accessor set; if/else arms advance the same counters. That the constraints determine the outputs, evaluator value-equality and degrees are not decided.', '5/C07'),
 'C08': ('push-skeleton extraction of the three lookup-constraint evaluators (agreement + argument shape + declared count), selector census, index-expression comparison (initial accumulator), selector-range tiling, symbolic interval bound on padding',
         'Static: the three lookup evaluators push the same selector-filtered skeleton, which has the shape of the argument and matches the declared capacity; every selector variant is produced and used; the accumulator pinned under InitSre is the one the first Sum transition reads (this rule reports defect D7 on the original tree); selector ranges tile the lookup block; all lookup gate wires reach constraints; padding uses fewer slots than a row. The log-derivative algebra is not decided.', '5/C08'),
 'C09': ('consumer filter-binding analysis, STARK verifier obligation table, transcript rules on the STARK functions, zip-partner length pinning from the STARK entry point, interval abstract interpretation of quotient_degree_factor',
         'Static: transition/first-row/last-row constraints are multiplied by exactly z_last / L_0 / L_last in both consumers and folded with every alpha; every check of the native STARK verifier exists, is unconditional and fed by the proof; vanishing evaluators always evaluate the STARK constraints (and lookups/CTLs when present); the STARK transcript is complete, ordered and agreed between prover, verifier and circuit; caps/batches handed to FRI are pinned to the instance; a STARK with constraints always has a quotient (interval analysis). Soundness algebra is not decided.', '5/C09'),
 'C10': ('consumer-call skeleton extraction and comparison (native vs circuit; against the argument shape), data-flow obligations on each constraint',
         'Static: native and circuit lookup/CTL evaluators emit the same skeleton of first-row / last-row / transition / all-rows constraints (one reviewed unreachable divergence, O1); the logUp evaluator anchors Z on the first row and updates it with an ALL-rows constraint; every CTL branch has a last-row anchor and a transition; each constraint is fed by the right columns; the CTL equality guard (and circuit twin) runs for every challenge of every CTL. The log-derivative algebra is not decided.', '5/C10'),
 'C11': ('twin obligation table for the STARK verifier circuit, transcript alignment, witness-assignment field coverage, variable-degree FRI obligation table, evaluator skeleton agreement',
         'Static: every native STARK verifier check has an in-circuit twin fed by the corresponding targets; get_challenges_target aligns with the native transcript; set_stark_proof_with_pis_target covers every target and value field; the variable-degree FRI circuit carries every FRI obligation tied to the degree selector; lookup/CTL evaluators agree. Equality of accepted sets is not decided.', '5/C11'),
 'C12': ('typestate pairing of capacity_up_to_mut / fill / set_len length expressions, slot-write coverage, unsafe-block census, Merkle obligation tables (native + circuit), leaf-digest function census',
         'Static: uninitialised digest/cap buffers are filled and set_len uses the same length expression; both child slots and every cap slot are written; unsafe is confined to three reviewed blocks; Merkle verification consumes all siblings, orders two_to_one by the index bit and ends in a comparison/connect with the selected cap entry (native and circuit, unconditional); every leaf->digest conversion is hash_or_noop whose threshold is in bytes of the hasher. Value-level cap equality and index arithmetic are not decided.', '5/C12'),
 'C14': ('forward interval abstract interpretation of unsigned straight-line code at the call sites of an unchecked-precondition primitive; constant-table canonicity census; threshold-constant obligation',
         'Static, deliberately narrow: the unchecked precondition x + y < 2^64 + ORDER of add_no_canonicalize_trashing_input is discharged by interval analysis at every call site; every add/sub_canonical_u64 call passes a literal or an element of a constant table whose literals are all < ORDER; inverse_2exp takes its shortcut threshold from the characteristic\'s two-adicity. Exactness of every operator on every representation, the reduce160 magnitude bound, extension-field axioms and packed lanes are numeric and NOT decided.', '5/C14'),
 'C16': ('field-carriage data-flow for compress/decompress literals, shared-path obligations, schedule-traversal lint, rename-insensitive sibling comparison of the domain walk',
         'Static: non-query fields are carried verbatim by the four compress/decompress routines; compressed verification and decompression derive challenges from the proof itself, infer elements, decompress and end in the same verify_with_challenges; the arity schedule is traversed in order and completely; get_inferred_elements passes the same definitions to the domain-walk calls as fri_verifier_query_round. Round-trip value equality is not decided.', '5/C16'),
 'C17': ('grammar extraction of reader/writer pairs from typed HIR (helpers expanded to byte-level primitives), field-order tracing through result literals/constructors, field coverage, registry comparison',
         'Static: all 58 read_*/write_* pairs and 41 serialize/deserialize pairs consume/emit the same primitive grammar; the k-th written item comes from the field the k-th read item ends in; every field of a serialised struct is written (or is reconstructed, reviewed); gate/generator registries enumerate every impl, in the same order on both sides, with distinct ids. Value round-trip and interchangeability of restored circuits are not decided.', '5/C17'),
 'C18': ('interprocedural taint over typed HIR (validators/decoders panic census), type-driven length-pin coverage, validate-before-use ordering',
         'Static: validators and proof decoders contain no panic site fed by input-derived data in their workspace call closure; every vector/cap/option length of the proof type family is pinned by an Err-guard; every entry point validates before use; decoders never allocate by an input-read size. Known finding D3 (compressed path unvalidated) is listed in known_findings.json.', '5/C18'),
 'C19': ('type-resolved census of hash-container iteration sites (typed HIR, cross-checked with MIR call edges) classified by consumer; rayon combinator allow-list over MIR call edges; sort-key injectivity obligation',
         'Static: every iteration over a HashMap/HashSet is order-insensitive, sorted, log-only or a reviewed exception; the gate list that feeds the circuit key is sorted by a key containing the unique gate id; all rayon calls are order-preserving combinators except find_any in the grinding search (re-checked sequentially). SIMD lane equality and debug/release arithmetic are numeric and not decided.', '5/C19'),
 'C20': ('positional data-flow through select_* functions (typed HIR), obligation tables for conditional/cyclic recursion, layout comparison',
         'Static: every select_* of the conditional verifier passes (condition, x0-part, x1-part) with identical field paths and builds each result field from the same field of both inputs; proof and verifier data are selected with the same condition and order; the cyclic proof is paired with the circuit\'s own verifier data; embedded verifier data is connected, registered, parsed and compared field by field with one layout; the dummy circuit asserts its common data. Behavioural acceptance clauses are not decided.', '5/C20'),
}
NA = {
 'C13': 'numeric equality of optimised and naive Poseidon / sponge over all 2^64-valued states: no structural clause beyond what C04 (sponge typestate) decides; would need symbolic execution + solver (another family)',
 'C15': 'FFT/polynomial identities are numeric; the unsafe in-place permutations are index arithmetic; no structural necessary condition decidable statically',
}
props = [json.loads(l) for l in open(os.path.join(V, 'properties.jsonl'))]
checks = []
na = []
for p in props:
    pid = p['id']
    if pid in CLAIMED:
        tech, text, ref = CLAIMED[pid]
        checks.append({
            'property_id': pid,
            'quick_cmd': './pv check %s --tier quick' % pid,
            'thorough_cmd': './pv check %s --tier thorough' % pid,
            'evidence_file': '/verif/evidence/%s.json' % pid,
            'replay_cmd_template': './pv explain {path}',
            'engine': 'pv',
            'level_claimed': {'category': 'other', 'text': text, 'design_ref': 'DESIGN.md section ' + ref},
            'level_note': NOTE,
            'technique': 'static analysis: ' + tech,
        })
    else:
        na.append({'property_id': pid, 'reason': NA.get(pid, 'check not built yet in this round (see DESIGN.md section 5 for the planned rules)')})
m = {
 'version': 1,
 'setup_cmd': './pv setup',
 'hooks': {'guard': 'plonky2_verif', 'enable': 'none needed: static analysis reads the compiler\'s HIR/MIR; no instrumentation in /repo',
           'baseline_off_cmd': 'cd /repo && cargo test --workspace --no-fail-fast --offline', 'source_commits': [], 'add_only': True},
 'engines': [{'name': 'pv', 'path': '/verif/pv', 'serves_properties': sorted(CLAIMED), 'kind_free_text': 'rustc_private fact extractor (driver/) + python rule engine (rules/): typed-HIR data-flow, obligation tables, sibling alignment, MIR call graph'}],
 'checks': checks,
 'notes': 'All claims are partial (level other): each check decides named structural necessary conditions of its property and says which clauses it does not decide (evidence coverage.not_decided). fix: commits in /repo repair defects D1,D2,D4,D5,D6; D3 is a known finding.',
 'not_applicable': na,
}
json.dump(m, open(os.path.join(V, 'MANIFEST.json'), 'w'), indent=1)
print('claimed', len(checks), 'n/a', len(na))
