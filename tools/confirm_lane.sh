#!/bin/bash
# lane3.sh <lane-id> <seed dirs...>
L=$1; shift
sed "s#CARGO_TARGET_DIR=/tmp/seedcheck/target#CARGO_TARGET_DIR=/tmp/seedcheck/target-$L#" /tmp/seedcheck/confirm.sh > /tmp/seedcheck/confirm-$L.sh; chmod +x /tmp/seedcheck/confirm-$L.sh
for s in "$@"; do id=$(echo $s | sed 's#/tmp/seed4-#R4-#; s#/#-#'); /tmp/seedcheck/confirm-$L.sh $s $id; echo "$id $(grep RESULT /tmp/seedcheck/$id.log | tail -1)"; done
