#!/bin/bash
# confirm_seed_release_full.sh <seed dir> <label> <cargo test args for the demo...> : demo and existing lib suites in the release profile
SD=$1; L=$2; shift 2
WT=/tmp/seedcheck/wt-$L; LOG=/tmp/seedcheck/$L.log
exec > $LOG 2>&1
export CARGO_NET_OFFLINE=true CARGO_TARGET_DIR=/tmp/seedcheck/target-rel CARGO_BUILD_JOBS=12
git -C /repo worktree remove --force $WT 2>/dev/null
git -C /repo worktree add -q --detach $WT HEAD || exit 9
cd $WT
git apply $SD/demo.diff || { patch -p1 < $SD/demo.diff || exit 8; }
echo "DEMO TESTS: (release) $@"
echo "=== DEMO (release) WITHOUT PATCH"; cargo test --release --offline "$@" 2>&1 | grep -E "^test |test result|panicked" | head -20; A=${PIPESTATUS[0]}
git apply $SD/patch.diff || { patch -p1 < $SD/patch.diff || exit 7; }
echo "=== DEMO (release) WITH PATCH"; cargo test --release --offline "$@" 2>&1 | grep -E "^test |test result|panicked" | head -20; B=${PIPESTATUS[0]}
echo "=== EXISTING (release) WITH PATCH"
cargo test --release --offline -p plonky2 -p starky --lib -- --skip test_div_extension --skip test_cyclic_recursion --skip test_recursive_recursive_verifier --skip test_recursive_verifier_one_lookup --skip "recursive_verifier::tests::test_recursive_verifier" --test-threads 6 2>&1 | grep -E "^test result|FAILED|failed|panicked" | head; C=${PIPESTATUS[0]}
cargo test --release --offline -p plonky2 --lib -- test_recursive_verifier_multi_hash test_recursive_verifier_too_many_rows test_recursive_verifier_two_luts 2>&1 | grep -E "^test result|FAILED" | head -3; D=${PIPESTATUS[0]}
echo "RESULT demo_without=$A demo_with=$B existing=$C existing2=$D  (want 0,1,0,0; demo and existing suites run with --release)"
cd /; git -C /repo worktree remove --force $WT
