#!/bin/bash
SD=$1; L=$2; shift 2
WT=/tmp/seedcheck/wt-$L; LOG=/tmp/seedcheck/$L.log
exec > $LOG 2>&1
export CARGO_NET_OFFLINE=true CARGO_TARGET_DIR=/tmp/seedcheck/target-rel CARGO_BUILD_JOBS=12
git -C /repo worktree remove --force $WT 2>/dev/null
git -C /repo worktree add -q --detach $WT HEAD || exit 9
cd $WT
git apply $SD/demo.diff || { patch -p1 < $SD/demo.diff || exit 8; }
echo "DEMO TESTS: (release) $@"
echo "=== DEMO (release) WITHOUT PATCH"; cargo test --release --offline "$@" 2>&1 | grep -E "^test |test result|panicked" | head -20; A=${PIPESTATUS[0]}
git apply $SD/patch.diff || { patch -p1 < $SD/patch.diff || exit 7; }
echo "=== DEMO (release) WITH PATCH"; cargo test --release --offline "$@" 2>&1 | grep -E "^test |test result|panicked" | head -20; B=${PIPESTATUS[0]}
echo "=== EXISTING (debug) WITH PATCH"
export CARGO_TARGET_DIR=/tmp/seedcheck/target-A
cargo test --offline -p starky --lib 2>&1 | grep -E "^test result|FAILED" | head; C=${PIPESTATUS[0]}
echo "RESULT demo_without=$A demo_with=$B existing=$C existing2=0  (want 0,1,0,0; demo run with --release)"
cd /; git -C /repo worktree remove --force $WT
