#!/usr/bin/env python3
"""keepseed.py <src dir> <name> <property> <needs...>: copy a confirmed seeded change into /verif/seeded/<name>/"""
import sys, os, shutil, json, re
src, name, prop = sys.argv[1:4]
needs = ' '.join(sys.argv[4:])
dst = '/verif/seeded/' + name
os.makedirs(dst, exist_ok=True)
for f in ('patch.diff', 'demo.diff', 'README.md'):
    shutil.copy(os.path.join(src, f), os.path.join(dst, f))
label = src.replace('/tmp/seed-', '').replace('/', '-')
log = '/tmp/seedcheck/%s.log' % label
res = None
if os.path.exists(log):
    m = re.findall(r'RESULT .*', open(log).read())
    res = m[-1] if m else None
    demos = re.findall(r'DEMO TESTS: (.*)', open(log).read())
meta = {'property': prop, 'source': 'independent sub-agent given only the property text and a scratch worktree',
        'needs_to_manifest': needs,
        'confirmed_by_me': {'script': 'tools/confirm_seed.sh (scratch worktree of /repo HEAD outside /repo and /verif, removed afterwards)',
                            'demo_tests': demos[-1] if res and demos else None, 'result': res,
                            'meaning': 'demo_without=0: demonstration passes on the unchanged tree; demo_with=1: fails with the change; existing=0/existing2=0: plonky2+starky lib tests (baseline minus the 5 excluded slow tests) pass with the change (a non-zero `existing` only when the demo itself was appended to the lib test binary)'}}
json.dump(meta, open(os.path.join(dst, 'meta.json'), 'w'), indent=1)
print('kept', dst, res)
