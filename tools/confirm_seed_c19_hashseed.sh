#!/bin/bash
SD=/tmp/seed6-C19/1; L=R6-C19-1
WT=/tmp/seedcheck/wt-$L; LOG=/tmp/seedcheck/$L.log
exec > $LOG 2>&1
export CARGO_NET_OFFLINE=true CARGO_TARGET_DIR=/tmp/seedcheck/target-B CARGO_BUILD_JOBS=8
git -C /repo worktree remove --force $WT 2>/dev/null
git -C /repo worktree add -q --detach $WT HEAD || exit 9
cd $WT
git apply $SD/demo.diff || exit 8
echo "DEMO TESTS: bash plonky2/tests/c19_hash_seed_independence.sh seed-A seed-B (two builds differing in CONST_RANDOM_SEED)"
echo "=== DEMO WITHOUT PATCH"; C19_REF_DIR=/tmp/seedcheck/c19ref bash plonky2/tests/c19_hash_seed_independence.sh seed-A seed-B 2>&1 | grep -E "===|same gate|test result|FAILED|panicked" | head -20; A=${PIPESTATUS[0]}
git apply $SD/patch.diff || exit 7
echo "=== DEMO WITH PATCH"; C19_REF_DIR=/tmp/seedcheck/c19ref bash plonky2/tests/c19_hash_seed_independence.sh seed-A seed-B 2>&1 | grep -E "===|same gate|test result|FAILED|panicked" | head -20; B=${PIPESTATUS[0]}
echo "=== EXISTING TESTS WITH PATCH"
cargo test --offline -p plonky2 --lib -- --skip test_div_extension --skip test_cyclic_recursion --skip test_recursive_recursive_verifier --skip test_recursive_verifier_one_lookup --skip "recursive_verifier::tests::test_recursive_verifier" --test-threads 6 2>&1 | grep -E "^test result|FAILED|failed|panicked" | head
C=${PIPESTATUS[0]}
echo "RESULT demo_without=$A demo_with=$B existing=$C existing2=0  (want 0,1,0,0)"
rm -rf /tmp/seedcheck/c19ref
cd /; git -C /repo worktree remove --force $WT
