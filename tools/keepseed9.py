#!/usr/bin/env python3
"""keepseed2.py: copy the confirmed round-9 seeded changes (/tmp/seed9-<Cnn>/<k>) into /verif/seeded/<Cnn>-r9-<k>/"""
import sys, os, shutil, json, re, glob
for src in sorted(glob.glob('/tmp/seed9-*/[0-9]')):
    prop = src.split('/')[2].replace('seed9-', '')
    k = src.split('/')[3]
    if len(sys.argv) > 1 and '%s-%s' % (prop, k) not in sys.argv[1:]:
        continue
    label = 'R9-%s-%s' % (prop, k)
    log = '/tmp/seedcheck/%s.log' % label
    if not os.path.exists(log):
        print('no log', label); continue
    txt = open(log).read()
    m = re.findall(r'RESULT .*', txt)
    res = m[-1] if m else None
    if not res or 'demo_without=0 demo_with=1' not in res:
        print('NOT CONFIRMED', label, res); continue
    dst = '/verif/seeded/%s-r9-%s' % (prop, k)
    os.makedirs(dst, exist_ok=True)
    for f in ('patch.diff', 'demo.diff', 'README.md'):
        shutil.copy(os.path.join(src, f), os.path.join(dst, f))
    if os.path.exists(os.path.join(src, 'patch.orig.diff')):
        shutil.copy(os.path.join(src, 'patch.orig.diff'), os.path.join(dst, 'patch.orig.diff'))
    readme = open(os.path.join(src, 'README.md')).read()
    mm = re.search(r'##[^\n]*(?:needed|manifest)[^\n]*\n+(.*?)(?:\n## |\Z)', readme, re.S | re.I)
    needs = ' '.join(mm.group(1).split())[:700] if mm else ''
    demos = re.findall(r'DEMO TESTS: (.*)', txt)
    meta = {'property': prop, 'round': 9, 'source': 'independent sub-agent given only the property text and a scratch worktree (22-minute limit, machine heavily loaded: most sub-agents could not build, so the demonstration was first executed by my confirmation run); asked for subtler changes in rarely exercised configurations and sibling implementations',
            'needs_to_manifest': needs,
            'rebased': os.path.exists(os.path.join(src, 'patch.orig.diff')) and 'patch.diff was re-based by hand onto the tree after fix D8 touched the same lines (patch.orig.diff is the sub-agent\'s original)' or None,
            'confirmed_by_me': {'script': 'tools/confirm_seed_r9.sh (existing tests: lib tests of the crate the change touches, baseline minus the excluded slow tests; scratch worktree of /repo HEAD outside /repo and /verif, removed afterwards)',
                                'demo_tests': demos[-1] if demos else None, 'result': res,
                                'meaning': 'demo_without=0: demonstration passes on the unchanged tree; demo_with=1: fails with the change; existing=0/existing2=0: plonky2+starky lib tests (baseline minus the 5 excluded slow tests) pass with the change (existing=101 only when the demonstration itself is a lib test and is the one failing test)'}}
    json.dump(meta, open(os.path.join(dst, 'meta.json'), 'w'), indent=1)
    print('kept', dst, res)
