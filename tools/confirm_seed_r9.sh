#!/bin/bash
# usage: confirm.sh <seed dir e.g. /tmp/seed-C18/1> <label>
# Confirms on the CURRENT /repo HEAD: demo passes without patch, fails with patch, existing lib tests pass with patch.
SD=$1; L=$2
WT=/tmp/seedcheck/wt-$L
LOG=/tmp/seedcheck/$L.log
exec > $LOG 2>&1
export CARGO_NET_OFFLINE=true CARGO_TARGET_DIR=/tmp/seedcheck/target CARGO_BUILD_JOBS=5
git -C /repo worktree remove --force $WT 2>/dev/null
git -C /repo worktree add -q --detach $WT HEAD || exit 9
cd $WT
git apply --3way $SD/demo.diff || { patch -p1 < $SD/demo.diff || { echo "RESULT demo-apply-failed"; exit 1; }; }
# find demo tests
TESTS=""
for f in $(git status --porcelain | awk '{print $2}'); do
  if [[ $f == */tests/*.rs ]]; then crate=$(echo $f | cut -d/ -f1); case $crate in field) crate=plonky2_field;; util) crate=plonky2_util;; maybe_rayon) crate=plonky2_maybe_rayon;; esac; name=$(basename $f .rs); TESTS="$TESTS|$crate --test $name"; fi
done
if [ -z "$TESTS" ]; then
  # lib tests: collect added fn names after #[test]
  crate=$(grep '^+++ b/' $SD/demo.diff | head -1 | sed 's#+++ b/##' | cut -d/ -f1)
  names=$(grep -A3 '^+ *#\[test\]' $SD/demo.diff | grep -o 'fn [a-zA-Z0-9_]*' | awk '{print $2}' | sort -u | tr '\n' ' ')
  TESTS="|$crate --lib -- $names"
fi
echo "DEMO TESTS: $TESTS"
run_demo() {
  rc=0
  IFS='|' read -ra T <<< "$TESTS"
  for t in "${T[@]}"; do [ -z "$t" ] && continue; echo "--- cargo test -p $t"; cargo test --offline -p $t 2>&1 | tail -25; r=${PIPESTATUS[0]}; [ $r -ne 0 ] && rc=1; done
  return $rc
}
echo "=== DEMO WITHOUT PATCH"; run_demo; A=$?
git apply --3way $SD/patch.diff || { patch -p1 < $SD/patch.diff || { echo "RESULT patch-apply-failed"; exit 1; }; }
echo "=== DEMO WITH PATCH"; run_demo; B=$?
echo "=== EXISTING TESTS WITH PATCH"
if grep -q '^+++ b/starky' $SD/patch.diff; then PK="-p starky"; else PK="-p plonky2"; fi
cargo test --offline $PK --lib -- --skip test_div_extension --skip test_cyclic_recursion --skip test_recursive_recursive_verifier --skip test_recursive_verifier_one_lookup --skip "recursive_verifier::tests::test_recursive_verifier" --skip seed --test-threads 5 2>&1 | grep -E "^test result|FAILED|failed|panicked" | head
C=${PIPESTATUS[0]}
D=0
echo "RESULT demo_without=$A demo_with=$B existing=$C existing2=$D  (want 0,1,0,0)"
cd /; git -C /repo worktree remove --force $WT
