#!/bin/bash
# avx2confirm.sh <seed dir> <label> <cargo test args...>  : demo under AVX2 without / with patch, scalar existing suite with patch
SD=$1; L=$2; shift 2
WT=/tmp/seedcheck/wt-$L; LOG=/tmp/seedcheck/$L.log
exec > $LOG 2>&1
export CARGO_NET_OFFLINE=true CARGO_TARGET_DIR=/tmp/seedcheck/target-avx2 CARGO_BUILD_JOBS=12
git -C /repo worktree remove --force $WT 2>/dev/null
git -C /repo worktree add -q --detach $WT HEAD || exit 9
cd $WT
git apply $SD/demo.diff || exit 8
echo "=== DEMO (AVX2) WITHOUT PATCH"; RUSTFLAGS="-C target-feature=+avx2" cargo test --offline "$@" 2>&1 | grep -E "^test |test result|panicked" | head -20; A=${PIPESTATUS[0]}
git apply $SD/patch.diff || exit 7
echo "=== DEMO (AVX2) WITH PATCH"; RUSTFLAGS="-C target-feature=+avx2" cargo test --offline "$@" 2>&1 | grep -E "^test |test result|panicked" | head -20; B=${PIPESTATUS[0]}
echo "=== EXISTING (scalar build) WITH PATCH"
export CARGO_TARGET_DIR=/tmp/seedcheck/target-A
cargo test --offline -p plonky2_field -p starky --lib 2>&1 | grep -E "^test result|FAILED" | head; C=${PIPESTATUS[0]}
echo "RESULT demo_without=$A demo_with=$B existing=$C existing2=0  (want 0,1,0,0; demo run with RUSTFLAGS=-C target-feature=+avx2)"
cd /; git -C /repo worktree remove --force $WT
