//! Demonstrations of verifier / decoder robustness defects D1-D4.
//!
//! Every test PASSES when the defect manifests (the call panics instead of returning `Err`).
//! On a tree where the defect is fixed the call returns `Err` (or `Ok`) and the test FAILS.

#[cfg(not(feature = "std"))]
use alloc::{boxed::Box, format, string::String, string::ToString, vec, vec::Vec};
use std::any::Any;
use std::panic::{catch_unwind, AssertUnwindSafe};

use crate::field::types::Field;
use crate::fri::reduction_strategies::FriReductionStrategy;
use crate::fri::FriConfig;
use crate::gates::noop::NoopGate;
use crate::iop::witness::{PartialWitness, WitnessWrite};
use crate::plonk::circuit_builder::CircuitBuilder;
use crate::plonk::circuit_data::{CircuitConfig, CircuitData};
use crate::plonk::config::{GenericConfig, PoseidonGoldilocksConfig};
use crate::plonk::proof::ProofWithPublicInputs;

const D: usize = 2;
type C = PoseidonGoldilocksConfig;
type F = <C as GenericConfig<D>>::F;

/// Renders the payload of a caught panic.
fn panic_message(payload: Box<dyn Any + Send>) -> String {
    if let Some(s) = payload.downcast_ref::<&str>() {
        s.to_string()
    } else if let Some(s) = payload.downcast_ref::<String>() {
        s.clone()
    } else {
        "<non-string panic payload>".to_string()
    }
}

/// Runs `f`, returning `Ok(rendered result)` if it returned and `Err(panic message)` if it
/// panicked.
fn observe<T: core::fmt::Debug>(f: impl FnOnce() -> T) -> Result<String, String> {
    match catch_unwind(AssertUnwindSafe(f)) {
        Ok(v) => Ok(format!("{v:?}")),
        Err(payload) => Err(panic_message(payload)),
    }
}

/// Asserts that `f` panicked (the defect) with a message containing `needle`.
fn expect_panic<T: core::fmt::Debug>(what: &str, needle: &str, f: impl FnOnce() -> T) {
    match observe(f) {
        Err(msg) => {
            println!("[{what}] PANICKED (defect manifests): {msg}");
            assert!(
                msg.contains(needle),
                "[{what}] panicked, but with an unexpected message: {msg}"
            );
        }
        Ok(v) => {
            let mut v = v;
            v.truncate(300);
            panic!("[{what}] did NOT panic (defect absent / fixed); returned: {v}");
        }
    }
}

/// A small circuit `x * y + x == z` with one public input and a few padding gates, together with
/// a valid proof for it.
fn small_circuit_and_proof(
    config: CircuitConfig,
    num_noops: usize,
) -> (CircuitData<F, C, D>, ProofWithPublicInputs<F, C, D>) {
    let mut builder = CircuitBuilder::<F, D>::new(config);
    let x = builder.add_virtual_target();
    let y = builder.add_virtual_target();
    let xy = builder.mul(x, y);
    let z = builder.add(xy, x);
    let z2 = builder.mul(z, z);
    builder.register_public_input(z2);
    for _ in 0..num_noops {
        builder.add_gate(NoopGate, vec![]);
    }
    let data = builder.build::<C>();

    let mut pw = PartialWitness::new();
    pw.set_target(x, F::from_canonical_u64(3)).unwrap();
    pw.set_target(y, F::from_canonical_u64(5)).unwrap();
    let proof = data.prove(pw).expect("honest proof generation");
    data.verify(proof.clone())
        .expect("the honest proof must verify");
    (data, proof)
}

/// D1: a Merkle cap whose length is not a power of two makes `verify` panic in
/// `validate_proof_shape -> MerkleCap::height -> log2_strict` instead of returning `Err`.
#[test]
fn d1_non_power_of_two_cap_panics_in_verify() {
    let (data, mut proof) = small_circuit_and_proof(CircuitConfig::standard_recursion_config(), 0);
    assert_eq!(proof.proof.wires_cap.0.len(), 16);
    proof.proof.wires_cap.0.truncate(3);
    expect_panic(
        "D1 data.verify(wires_cap.len()==3)",
        "Not a power of two",
        || data.verify(proof),
    );
}

/// D1 (variant): the same panic through a commit-phase cap, i.e. through
/// `verify_fri_proof -> validate_fri_proof_shape -> MerkleCap::height`.
#[test]
fn d1b_non_power_of_two_commit_phase_cap_panics_in_verify() {
    let mut config = CircuitConfig::standard_recursion_config();
    // Make sure that there is at least one FRI reduction step, hence one commit-phase cap.
    config.fri_config.reduction_strategy = FriReductionStrategy::Fixed(vec![1, 1]);
    // No grinding, so that the (changed) transcript cannot fail the PoW check first.
    config.fri_config.proof_of_work_bits = 0;
    config.fri_config.num_query_rounds = 34;
    let (data, mut proof) = small_circuit_and_proof(config, 0);
    let caps = &mut proof.proof.opening_proof.commit_phase_merkle_caps;
    assert_eq!(caps.len(), 2);
    caps[0].0.truncate(3);
    expect_panic(
        "D1b data.verify(commit_phase_merkle_caps[0].len()==3)",
        "Not a power of two",
        || data.verify(proof),
    );
}

/// D2: the number of commit-phase Merkle caps is never checked against the number of FRI
/// reduction steps, while `fri_verifier_query_round` indexes `proof.commit_phase_merkle_caps[i]`
/// and `challenges.fri_betas[i]` (one beta is derived per *supplied* cap) by the step number.
///
/// The attack goes through the public API only (`data.verify`): drop the last commit-phase cap,
/// then grind `pow_witness` (free: `proof_of_work_bits == 0` in this config) until the
/// Fiat-Shamir query indices of the tampered transcript coincide with the positions that the
/// (honest) query rounds were generated for. Every check that precedes the last reduction step
/// then passes, and the verifier indexes out of bounds.
#[test]
fn d2_missing_commit_phase_cap_index_out_of_bounds_in_verify() {
    let config = CircuitConfig {
        security_bits: 6,
        fri_config: FriConfig {
            rate_bits: 3,
            cap_height: 1,
            proof_of_work_bits: 0,
            reduction_strategy: FriReductionStrategy::Fixed(vec![1, 1]),
            num_query_rounds: 2,
        },
        ..CircuitConfig::standard_recursion_config()
    };
    let (data, honest) = small_circuit_and_proof(config, 0);
    let digest = &data.verifier_only.circuit_digest;
    let honest_indices = honest.fri_query_indices(digest, &data.common).unwrap();
    println!(
        "[D2] degree_bits = {}, reduction_arity_bits = {:?}, honest query indices = {:?}",
        data.common.degree_bits(),
        data.common.fri_params.reduction_arity_bits,
        honest_indices
    );

    let mut tampered = honest.clone();
    let caps = &mut tampered.proof.opening_proof.commit_phase_merkle_caps;
    assert_eq!(caps.len(), 2);
    caps.pop();

    // Grind the (unconstrained) PoW witness until the tampered transcript yields the same query
    // indices as the honest one.
    let mut found = false;
    for w in 0..(1u64 << 22) {
        tampered.proof.opening_proof.pow_witness = F::from_canonical_u64(w);
        let ch = tampered
            .get_challenges(tampered.get_public_inputs_hash(), digest, &data.common)
            .unwrap();
        if ch.fri_challenges.fri_query_indices == honest_indices {
            println!(
                "[D2] pow_witness = {w} reproduces the honest query indices; fri_betas.len() = {}",
                ch.fri_challenges.fri_betas.len()
            );
            assert_eq!(ch.fri_challenges.fri_betas.len(), 1);
            found = true;
            break;
        }
    }
    assert!(found, "no suitable pow_witness found");

    expect_panic(
        "D2 data.verify(one commit-phase cap popped)",
        "index out of bounds",
        || data.verify(tampered),
    );
}

/// D3: compressed proofs get no shape validation at all. Clearing the `initial_trees_proofs` map
/// makes both `verify_compressed` and `decompress` panic in `get_inferred_elements` (HashMap
/// index) instead of returning `Err`. NOT fixed on HEAD.
#[test]
fn d3_compressed_proof_without_initial_trees_panics() {
    let (data, proof) = small_circuit_and_proof(CircuitConfig::standard_recursion_config(), 0);
    let mut c = data.compress(proof).expect("compress");
    data.verify_compressed(c.clone())
        .expect("the honest compressed proof must verify");
    c.proof
        .opening_proof
        .query_round_proofs
        .initial_trees_proofs
        .clear();

    let c1 = c.clone();
    expect_panic(
        "D3 data.verify_compressed(initial_trees_proofs cleared)",
        "no entry found for key",
        || data.verify_compressed(c1),
    );
    let c2 = c.clone();
    expect_panic(
        "D3 data.decompress(initial_trees_proofs cleared)",
        "no entry found for key",
        || data.decompress(c2),
    );
}

/// D3 (variant): same with one of the per-step maps.
#[test]
fn d3b_compressed_proof_without_steps_panics() {
    let mut config = CircuitConfig::standard_recursion_config();
    config.fri_config.reduction_strategy = FriReductionStrategy::Fixed(vec![1, 1]);
    let (data, proof) = small_circuit_and_proof(config, 0);
    let mut c = data.compress(proof).expect("compress");
    c.proof.opening_proof.query_round_proofs.steps[0].clear();
    let c1 = c.clone();
    expect_panic(
        "D3b data.verify_compressed(steps[0] cleared)",
        "no entry found for key",
        || data.verify_compressed(c1),
    );
    let c2 = c.clone();
    expect_panic(
        "D3b data.decompress(steps[0] cleared)",
        "no entry found for key",
        || data.decompress(c2),
    );
}

/// D4 (read_hash path): the first 8 bytes of a serialized proof are the first limb of
/// `wires_cap[0]`, decoded by `read_hash -> HashOut::from_bytes -> from_canonical_u64`, whose
/// `debug_assert!(n < ORDER)` fires on `0xFFFF_FFFF_FFFF_FFFF`.
#[test]
fn d4a_from_bytes_noncanonical_hash_limb_panics() {
    let (data, proof) = small_circuit_and_proof(CircuitConfig::standard_recursion_config(), 0);
    let mut bytes = proof.to_bytes();
    assert_eq!(
        ProofWithPublicInputs::<F, C, D>::from_bytes(bytes.clone(), &data.common).unwrap(),
        proof
    );
    bytes[0..8].copy_from_slice(&[0xFF; 8]);
    assert!(cfg!(debug_assertions), "this demo needs a debug build");
    expect_panic(
        "D4a from_bytes(non-canonical limb in wires_cap[0])",
        "n < Self::ORDER",
        || ProofWithPublicInputs::<F, C, D>::from_bytes(bytes, &data.common),
    );
}

/// D4 (read_field path): the three caps (`3 * 2^cap_height` hashes of 32 bytes) are followed by
/// the opening set, whose first element is `openings.constants[0]`, decoded by
/// `read_field_ext -> read_field -> from_canonical_u64`.
#[test]
fn d4b_from_bytes_noncanonical_field_element_panics() {
    let (data, proof) = small_circuit_and_proof(CircuitConfig::standard_recursion_config(), 0);
    let bytes = proof.to_bytes();
    let cap_height = data.common.config.fri_config.cap_height;
    let offset = 3 * (1 << cap_height) * 32;

    // Sanity check that `offset` really is the first limb of `openings.constants[0]`, a value
    // decoded with `read_field`: overwrite it with the canonical value 42 and decode.
    let mut probe = bytes.clone();
    probe[offset..offset + 8].copy_from_slice(&42u64.to_le_bytes());
    let decoded = ProofWithPublicInputs::<F, C, D>::from_bytes(probe, &data.common).unwrap();
    use crate::field::extension::FieldExtension;
    let limbs: [F; D] = decoded.proof.openings.constants[0].to_basefield_array();
    assert_eq!(limbs[0], F::from_canonical_u64(42));
    assert_eq!(decoded.proof.wires_cap, proof.proof.wires_cap);
    assert_eq!(
        decoded.proof.quotient_polys_cap,
        proof.proof.quotient_polys_cap
    );

    let mut bad = bytes;
    bad[offset..offset + 8].copy_from_slice(&[0xFF; 8]);
    assert!(cfg!(debug_assertions), "this demo needs a debug build");
    expect_panic(
        "D4b from_bytes(non-canonical limb in openings.constants[0])",
        "n < Self::ORDER",
        || ProofWithPublicInputs::<F, C, D>::from_bytes(bad, &data.common),
    );
}
