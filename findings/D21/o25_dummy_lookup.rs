//! D21: `dummy_circuit` cannot rebuild a circuit shape that uses lookup tables.
//! Place in plonky2/tests/ and run `cargo test -p plonky2 --offline --test o25_dummy_lookup -- --nocapture`.
use std::sync::Arc;
use plonky2::field::types::Field;
use plonky2::iop::witness::{PartialWitness, WitnessWrite};
use plonky2::plonk::circuit_builder::CircuitBuilder;
use plonky2::plonk::circuit_data::CircuitConfig;
use plonky2::plonk::config::{GenericConfig, PoseidonGoldilocksConfig};
use plonky2::recursion::dummy_circuit::dummy_circuit;

const D: usize = 2;
type C = PoseidonGoldilocksConfig;
type F = <C as GenericConfig<D>>::F;

#[test]
fn dummy_circuit_for_a_lookup_shape() {
    let config = CircuitConfig::standard_recursion_config();
    let mut builder = CircuitBuilder::<F, D>::new(config);
    let table = Arc::new((0..16u16).map(|i| (i, i * 2)).collect::<Vec<_>>());
    let idx = builder.add_lookup_table_from_pairs(table);
    let x = builder.add_virtual_target();
    let y = builder.add_lookup_from_index(x, idx);
    builder.register_public_input(y);
    let data = builder.build::<C>();
    let mut pw = PartialWitness::new();
    pw.set_target(x, F::from_canonical_u64(3)).unwrap();
    let proof = data.prove(pw).unwrap();
    data.verify(proof).unwrap();
    let res = std::panic::catch_unwind(std::panic::AssertUnwindSafe(|| dummy_circuit::<F, C, D>(&data.common)));
    println!("dummy_circuit for a lookup shape: {}", if res.is_ok() { "ok" } else { "PANIC" });
    assert!(res.is_ok());
}
