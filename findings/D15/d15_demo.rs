//! D15: the in-circuit cross-table-lookup check must add ZERO, not an arbitrary target, when no extra looking values are declared.

use hashbrown::HashMap;
use plonky2::field::types::Field;
use plonky2::iop::target::Target;
use plonky2::iop::witness::{PartialWitness, WitnessWrite};
use plonky2::plonk::circuit_builder::CircuitBuilder;
use plonky2::plonk::circuit_data::CircuitConfig;
use plonky2::plonk::config::{GenericConfig, PoseidonGoldilocksConfig};

use crate::config::StarkConfig;
use crate::cross_table_lookup::{verify_cross_table_lookups_circuit, CrossTableLookup, TableWithColumns};
use crate::lookup::{Column, Filter};

const D: usize = 2;
type C = PoseidonGoldilocksConfig;
type F = <C as GenericConfig<D>>::F;

fn circuit_accepts(first_virtual_target: u64, looking_sum: u64, looked_sum: u64) -> bool {
    let mut config = StarkConfig::standard_fast_config();
    config.num_challenges = 1;
    let mut builder = CircuitBuilder::<F, D>::new(CircuitConfig::standard_recursion_config());
    let unrelated = builder.add_virtual_target();
    assert_eq!(unrelated, Target::default());
    let looking = builder.add_virtual_target();
    let looked = builder.add_virtual_target();
    let ctl = CrossTableLookup::new(
        vec![TableWithColumns::new(0, vec![Column::single(0)], Filter::default())],
        TableWithColumns::new(1, vec![Column::single(0)], Filter::default()),
    );
    verify_cross_table_lookups_circuit::<F, D, 2>(&mut builder, vec![ctl], [vec![looking], vec![looked]], &HashMap::new(), &config);
    let data = builder.build::<C>();
    let mut pw = PartialWitness::new();
    pw.set_target(unrelated, F::from_canonical_u64(first_virtual_target)).unwrap();
    pw.set_target(looking, F::from_canonical_u64(looking_sum)).unwrap();
    pw.set_target(looked, F::from_canonical_u64(looked_sum)).unwrap();
    let res = std::panic::catch_unwind(std::panic::AssertUnwindSafe(|| data.prove(pw)));
    match res {
        Ok(Ok(proof)) => data.verify(proof).is_ok(),
        _ => false,
    }
}

#[test]
fn d15_circuit_ctl_check_without_extra_values() {
    let equal = circuit_accepts(5, 8, 8);
    let unequal = circuit_accepts(5, 3, 8);
    println!("D15 looking 8 == looked 8 (unrelated target = 5): accepted = {equal}");
    println!("D15 looking 3 != looked 8 (unrelated target = 5): accepted = {unequal}");
    assert!(equal, "D15: equal sums rejected by the circuit");
    assert!(!unequal, "D15: the circuit accepted 3 == 8");
}
