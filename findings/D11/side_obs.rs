//! Demonstration for seeded defect C10/2.
//!
//! A small end-to-end multi-table harness for cross-table lookups (the repository has none):
//! `prove_all` commits to all traces, observes all trace caps, draws the shared CTL challenges
//! (`get_ctl_data`) and proves every table with `prove_with_commitment`; `verify_all` mirrors this
//! with `CtlCheckVars::from_proof`, `verify_stark_proof_with_challenges` and
//! `verify_cross_table_lookups`.
//!
//! The prover takes a `tamper` hook that may modify the CTL auxiliary columns (helper columns and
//! running sums) before they are committed, i.e. it models a dishonest prover.

use std::panic::{catch_unwind, AssertUnwindSafe};

use anyhow::Result;
use hashbrown::HashMap;
use plonky2::field::extension::{Extendable, FieldExtension};
use plonky2::field::packed::PackedField;
use plonky2::field::polynomial::PolynomialValues;
use plonky2::field::types::Field;
use plonky2::fri::oracle::PolynomialBatch;
use plonky2::hash::hash_types::RichField;
use plonky2::iop::challenger::Challenger;
use plonky2::iop::ext_target::ExtensionTarget;
use plonky2::plonk::circuit_builder::CircuitBuilder;
use plonky2::plonk::config::{GenericConfig, PoseidonGoldilocksConfig};
use plonky2::util::timing::TimingTree;

use crate::config::StarkConfig;
use crate::constraint_consumer::{ConstraintConsumer, RecursiveConstraintConsumer};
use crate::cross_table_lookup::{
    get_ctl_data, verify_cross_table_lookups, CrossTableLookup, CtlCheckVars, CtlData,
    TableWithColumns,
};
use crate::evaluation_frame::StarkFrame;
use crate::lookup::{get_grand_product_challenge_set, Column, Filter, GrandProductChallengeSet};
use crate::proof::StarkProofWithPublicInputs;
use crate::prover::prove_with_commitment;
use crate::stark::Stark;
use crate::verifier::verify_stark_proof_with_challenges;

const D: usize = 2;
type C = PoseidonGoldilocksConfig;
type F = <C as GenericConfig<D>>::F;
type H = <C as GenericConfig<D>>::Hasher;

const COLS: usize = 4;
const NUM_ROWS: usize = 32;
const DEGREE: usize = 3;

/// A table without constraints of its own: only the cross-table lookups constrain it.
#[derive(Copy, Clone)]
struct TableStark;

impl<F2: RichField + Extendable<D2>, const D2: usize> Stark<F2, D2> for TableStark {
    type EvaluationFrame<FE, P, const D3: usize>
        = StarkFrame<P, P::Scalar, COLS, 0>
    where
        FE: FieldExtension<D3, BaseField = F2>,
        P: PackedField<Scalar = FE>;

    type EvaluationFrameTarget = StarkFrame<ExtensionTarget<D2>, ExtensionTarget<D2>, COLS, 0>;

    fn eval_packed_generic<FE, P, const D3: usize>(
        &self,
        _vars: &Self::EvaluationFrame<FE, P, D3>,
        _yield_constr: &mut ConstraintConsumer<P>,
    ) where
        FE: FieldExtension<D3, BaseField = F2>,
        P: PackedField<Scalar = FE>,
    {
    }

    fn eval_ext_circuit(
        &self,
        _builder: &mut CircuitBuilder<F2, D2>,
        _vars: &Self::EvaluationFrameTarget,
        _yield_constr: &mut RecursiveConstraintConsumer<F2, D2>,
    ) {
    }

    fn constraint_degree(&self) -> usize {
        DEGREE
    }

    fn requires_ctls(&self) -> bool {
        true
    }
}

type Trace = Vec<PolynomialValues<F>>;
type Proof = StarkProofWithPublicInputs<F, C, D>;

fn rows_to_trace(rows: &[[u64; COLS]]) -> Trace {
    assert_eq!(rows.len(), NUM_ROWS);
    (0..COLS)
        .map(|c| {
            PolynomialValues::new(rows.iter().map(|r| F::from_canonical_u64(r[c])).collect())
        })
        .collect()
}

/// Proves all tables. `tamper` may modify the CTL auxiliary data before it is committed.
fn prove_all<const N: usize>(
    config: &StarkConfig,
    traces: &[Trace; N],
    ctls: &[CrossTableLookup<F>],
    tamper: impl FnOnce(&mut [CtlData<F>; N]),
) -> Result<Vec<Proof>> {
    let mut timing = TimingTree::default();
    let commitments = traces
        .iter()
        .map(|t| {
            PolynomialBatch::<F, C, D>::from_values(
                t.clone(),
                config.fri_config.rate_bits,
                false,
                config.fri_config.cap_height,
                &mut timing,
                None,
            )
        })
        .collect::<Vec<_>>();

    // The shared CTL challenges are drawn after all trace caps have been observed.
    let mut challenger = Challenger::<F, H>::new();
    for c in &commitments {
        challenger.observe_cap(&c.merkle_tree.cap);
    }
    let (ctl_challenges, mut ctl_data) =
        get_ctl_data::<F, C, D, N>(config, traces, ctls, &mut challenger, DEGREE);
    tamper(&mut ctl_data);

    let mut proofs = vec![];
    for i in 0..N {
        let mut ch = challenger.clone();
        config.observe(&mut ch);
        proofs.push(prove_with_commitment::<F, C, TableStark, D>(
            &TableStark,
            config,
            &traces[i],
            &commitments[i],
            Some(&ctl_data[i]),
            Some(&ctl_challenges),
            &mut ch,
            &[],
            None,
            None,
            &mut timing,
        )?);
    }
    Ok(proofs)
}

/// Verifies all tables and the cross-table lookups. `extra` yields the extra looking sums
/// (keyed by the position of the CTL) for the given challenges.
fn verify_all<const N: usize>(
    config: &StarkConfig,
    proofs: &[Proof],
    ctls: &[CrossTableLookup<F>],
    extra: impl Fn(&GrandProductChallengeSet<F>) -> HashMap<usize, Vec<F>>,
) -> Result<()> {
    assert_eq!(proofs.len(), N);
    let mut challenger = Challenger::<F, H>::new();
    for p in proofs {
        challenger.observe_cap(&p.proof.trace_cap);
    }
    let ctl_challenges = get_grand_product_challenge_set(&mut challenger, config.num_challenges);

    for (i, p) in proofs.iter().enumerate() {
        let (total_helpers, _num_zs, helpers_by_ctl) =
            CrossTableLookup::num_ctl_helpers_zs_all(ctls, i, config.num_challenges, DEGREE);
        let ctl_vars = CtlCheckVars::from_proof(
            i,
            &p.proof,
            ctls,
            &ctl_challenges,
            0,
            total_helpers,
            &helpers_by_ctl,
        );
        let mut ch = challenger.clone();
        let challenges = p.get_challenges(
            &TableStark,
            &mut ch,
            Some(&ctl_challenges),
            Some(&ctl_vars),
            true,
            config,
            None,
        );
        verify_stark_proof_with_challenges(
            &TableStark,
            &p.proof,
            &challenges,
            Some(&ctl_vars),
            &[],
            config,
        )?;
    }

    let ctl_zs_first: [Vec<F>; N] = core::array::from_fn(|i| {
        proofs[i]
            .proof
            .openings
            .ctl_zs_first
            .clone()
            .expect("CTL tables have first-row openings")
    });
    verify_cross_table_lookups::<F, D, N>(ctls, ctl_zs_first, &extra(&ctl_challenges), config)
}

/// Runs prover and verifier; a panic anywhere (e.g. the prover's constraint self-check, or the
/// failing quotient division) counts as a rejection.
fn accepted<const N: usize>(
    config: &StarkConfig,
    traces: &[Trace; N],
    ctls: &[CrossTableLookup<F>],
    tamper: impl FnOnce(&mut [CtlData<F>; N]),
) -> bool {
    let res = catch_unwind(AssertUnwindSafe(|| -> Result<()> {
        let proofs = prove_all::<N>(config, traces, ctls, tamper)?;
        verify_all::<N>(config, &proofs, ctls, |_| HashMap::new())
    }));
    match res {
        Ok(Ok(())) => true,
        Ok(Err(e)) => {
            println!("rejected: {e}");
            false
        }
        Err(_) => {
            println!("rejected: prover/verifier panicked");
            false
        }
    }
}


fn simple_rows(flag_rows: usize) -> Vec<[u64; COLS]> {
    (0..NUM_ROWS as u64)
        .map(|i| [i + 1, 100 + 3 * i, ((i as usize) < flag_rows) as u64, 0])
        .collect()
}

fn twc(table: usize) -> TableWithColumns<F> {
    TableWithColumns::new(
        table,
        vec![Column::single(0), Column::single(1)],
        Filter::new_simple(Column::single(2)),
    )
}

/// Looking tables [0, 2, 0] (repeated table, not adjacent), looked table 1.
#[test]
fn side_b_non_adjacent_repeated_looking_table() {
    let config = StarkConfig::standard_fast_config();
    let t0 = simple_rows(3);
    let t2 = (0..NUM_ROWS as u64)
        .map(|i| [i + 50, 7 * i, (i < 2) as u64, 0])
        .collect::<Vec<_>>();
    let mut t1 = vec![];
    for r in t0.iter().filter(|r| r[2] == 1) {
        t1.push([r[0], r[1], 1, 0]);
        t1.push([r[0], r[1], 1, 0]);
    }
    for r in t2.iter().filter(|r| r[2] == 1) {
        t1.push([r[0], r[1], 1, 0]);
    }
    t1.resize(NUM_ROWS, [7, 7, 0, 0]);
    let traces = [rows_to_trace(&t0), rows_to_trace(&t1), rows_to_trace(&t2)];

    let ctls_sorted = vec![CrossTableLookup::new(vec![twc(0), twc(0), twc(2)], twc(1))];
    println!("sorted [0,0,2]: accepted = {}", accepted::<3>(&config, &traces, &ctls_sorted, |_| {}));
    let ctls = vec![CrossTableLookup::new(vec![twc(0), twc(2), twc(0)], twc(1))];
    crate::cross_table_lookup::debug_utils::check_ctls(&traces, &ctls, &HashMap::new());
    println!("unsorted [0,2,0]: accepted = {}", accepted::<3>(&config, &traces, &ctls, |_| {}));
}

/// Table 0 looks into itself (and table 1 also looks into table 0).
#[test]
fn side_c_table_looking_into_itself() {
    let config = StarkConfig::standard_fast_config();
    // Table 0: looked rows are rows with col2 == 1 (cols 0,1); looking rows: col3 == 1, same cols.
    let mut t0 = simple_rows(4);
    // rows 10, 11 look up copies of rows 0 and 1.
    t0[10] = [t0[0][0], t0[0][1], 0, 1];
    t0[11] = [t0[1][0], t0[1][1], 0, 1];
    // table 1 looks up rows 2 and 3.
    let mut t1 = simple_rows(0);
    t1[5] = [t0[2][0], t0[2][1], 1, 0];
    t1[6] = [t0[3][0], t0[3][1], 1, 0];
    let traces = [rows_to_trace(&t0), rows_to_trace(&t1)];
    let self_looking = TableWithColumns::new(
        0,
        vec![Column::single(0), Column::single(1)],
        Filter::new_simple(Column::single(3)),
    );
    let ctls = vec![CrossTableLookup::new(vec![self_looking, twc(1)], twc(0))];
    crate::cross_table_lookup::debug_utils::check_ctls(&traces, &ctls, &HashMap::new());
    println!("self-looking: accepted = {}", accepted::<2>(&config, &traces, &ctls, |_| {}));
}
