//! Demonstrations of the STARK verifier defects D5 (panics before validation) and D6 (soundness:
//! a proof of a FALSE statement is accepted when `quotient_polys_cap == None`).
//!
//! Every test PASSES when the defect manifests. On a tree where the defect is fixed,
//! `verify_stark_proof` returns `Err` and the test FAILS.
//!
//! The verifier is untouched. `FibonacciStark` below is a verbatim copy of the (module-private)
//! `crate::fibonacci_stark::FibonacciStark`, and `evil_prove` is a test-only malicious prover
//! derived from `crate::prover::prove` / `prove_with_commitment`.

#[cfg(not(feature = "std"))]
use alloc::{boxed::Box, format, string::String, string::ToString, vec, vec::Vec};
use core::iter::successors;
use core::marker::PhantomData;
use std::any::Any;
use std::panic::{catch_unwind, AssertUnwindSafe};

use anyhow::{ensure, Result};
use plonky2::field::extension::{Extendable, FieldExtension};
use plonky2::field::packed::PackedField;
use plonky2::field::polynomial::{PolynomialCoeffs, PolynomialValues};
use plonky2::field::types::Field;
use plonky2::fri::oracle::PolynomialBatch;
use plonky2::hash::hash_types::RichField;
use plonky2::hash::merkle_tree::MerkleCap;
use plonky2::iop::challenger::Challenger;
use plonky2::iop::ext_target::ExtensionTarget;
use plonky2::plonk::circuit_builder::CircuitBuilder;
use plonky2::plonk::config::{GenericConfig, PoseidonGoldilocksConfig};
use plonky2::util::timing::TimingTree;
use plonky2::util::{log2_ceil, log2_strict};

use crate::config::StarkConfig;
use crate::constraint_consumer::{ConstraintConsumer, RecursiveConstraintConsumer};
use crate::evaluation_frame::{StarkEvaluationFrame, StarkFrame};
use crate::proof::{StarkOpeningSet, StarkProof, StarkProofWithPublicInputs};
use crate::prover::prove;
use crate::stark::Stark;
use crate::util::trace_rows_to_poly_values;
use crate::vanishing_poly::compute_eval_vanishing_poly;
use crate::verifier::verify_stark_proof;

const D: usize = 2;
type C = PoseidonGoldilocksConfig;
type F = <C as GenericConfig<D>>::F;
type S = FibonacciStark<F, D>;

// ---------------------------------------------------------------------------------------------
// Verbatim copy of `crate::fibonacci_stark::FibonacciStark` (which is private to its module).
// ---------------------------------------------------------------------------------------------

/// Computes a Fibonacci sequence with state `[x0, x1]` using the state transition
/// `x0' <- x1, x1' <- x0 + x1.
#[derive(Copy, Clone)]
struct FibonacciStark<F: RichField + Extendable<D>, const D: usize> {
    num_rows: usize,
    _phantom: PhantomData<F>,
}

impl<F: RichField + Extendable<D>, const D: usize> FibonacciStark<F, D> {
    const PI_INDEX_X0: usize = 0;
    const PI_INDEX_X1: usize = 1;
    const PI_INDEX_RES: usize = 2;

    const fn new(num_rows: usize) -> Self {
        Self {
            num_rows,
            _phantom: PhantomData,
        }
    }

    fn generate_trace(&self, x0: F, x1: F) -> Vec<PolynomialValues<F>> {
        let trace_rows = (0..self.num_rows)
            .scan([x0, x1], |acc, _| {
                let tmp = *acc;
                acc[0] = tmp[1];
                acc[1] = tmp[0] + tmp[1];
                Some(tmp)
            })
            .collect::<Vec<_>>();
        trace_rows_to_poly_values(trace_rows)
    }
}

const FIBONACCI_COLUMNS: usize = 2;
const FIBONACCI_PUBLIC_INPUTS: usize = 3;

impl<F: RichField + Extendable<D>, const D: usize> Stark<F, D> for FibonacciStark<F, D> {
    type EvaluationFrame<FE, P, const D2: usize>
        = StarkFrame<P, P::Scalar, FIBONACCI_COLUMNS, FIBONACCI_PUBLIC_INPUTS>
    where
        FE: FieldExtension<D2, BaseField = F>,
        P: PackedField<Scalar = FE>;

    type EvaluationFrameTarget = StarkFrame<
        ExtensionTarget<D>,
        ExtensionTarget<D>,
        FIBONACCI_COLUMNS,
        FIBONACCI_PUBLIC_INPUTS,
    >;

    fn eval_packed_generic<FE, P, const D2: usize>(
        &self,
        vars: &Self::EvaluationFrame<FE, P, D2>,
        yield_constr: &mut ConstraintConsumer<P>,
    ) where
        FE: FieldExtension<D2, BaseField = F>,
        P: PackedField<Scalar = FE>,
    {
        let local_values = vars.get_local_values();
        let next_values = vars.get_next_values();
        let public_inputs = vars.get_public_inputs();

        // Check public inputs.
        yield_constr.constraint_first_row(local_values[0] - public_inputs[Self::PI_INDEX_X0]);
        yield_constr.constraint_first_row(local_values[1] - public_inputs[Self::PI_INDEX_X1]);
        yield_constr.constraint_last_row(local_values[1] - public_inputs[Self::PI_INDEX_RES]);

        // x0' <- x1
        yield_constr.constraint_transition(next_values[0] - local_values[1]);
        // x1' <- x0 + x1
        yield_constr.constraint_transition(next_values[1] - local_values[0] - local_values[1]);
    }

    fn eval_ext_circuit(
        &self,
        builder: &mut CircuitBuilder<F, D>,
        vars: &Self::EvaluationFrameTarget,
        yield_constr: &mut RecursiveConstraintConsumer<F, D>,
    ) {
        let local_values = vars.get_local_values();
        let next_values = vars.get_next_values();
        let public_inputs = vars.get_public_inputs();
        // Check public inputs.
        let pis_constraints = [
            builder.sub_extension(local_values[0], public_inputs[Self::PI_INDEX_X0]),
            builder.sub_extension(local_values[1], public_inputs[Self::PI_INDEX_X1]),
            builder.sub_extension(local_values[1], public_inputs[Self::PI_INDEX_RES]),
        ];
        yield_constr.constraint_first_row(builder, pis_constraints[0]);
        yield_constr.constraint_first_row(builder, pis_constraints[1]);
        yield_constr.constraint_last_row(builder, pis_constraints[2]);

        // x0' <- x1
        let first_col_constraint = builder.sub_extension(next_values[0], local_values[1]);
        yield_constr.constraint_transition(builder, first_col_constraint);
        // x1' <- x0 + x1
        let second_col_constraint = {
            let tmp = builder.sub_extension(next_values[1], local_values[0]);
            builder.sub_extension(tmp, local_values[1])
        };
        yield_constr.constraint_transition(builder, second_col_constraint);
    }

    fn constraint_degree(&self) -> usize {
        2
    }
}

fn fibonacci<F: Field>(n: usize, x0: F, x1: F) -> F {
    (0..n).fold((x0, x1), |x, _| (x.1, x.0 + x.1)).1
}

// ---------------------------------------------------------------------------------------------
// Helpers.
// ---------------------------------------------------------------------------------------------

fn panic_message(payload: Box<dyn Any + Send>) -> String {
    if let Some(s) = payload.downcast_ref::<&str>() {
        s.to_string()
    } else if let Some(s) = payload.downcast_ref::<String>() {
        s.clone()
    } else {
        "<non-string panic payload>".to_string()
    }
}

/// Asserts that `f` panicked (the defect) with a message containing `needle`.
fn expect_panic<T: core::fmt::Debug>(what: &str, needle: &str, f: impl FnOnce() -> T) {
    match catch_unwind(AssertUnwindSafe(f)) {
        Err(payload) => {
            let msg = panic_message(payload);
            println!("[{what}] PANICKED (defect manifests): {msg}");
            assert!(
                msg.contains(needle),
                "[{what}] panicked, but with an unexpected message: {msg}"
            );
        }
        Ok(v) => {
            let mut v = format!("{v:?}");
            v.truncate(300);
            panic!("[{what}] did NOT panic (defect absent / fixed); returned: {v}");
        }
    }
}

const NUM_ROWS: usize = 1 << 5;

/// An honest proof of the true statement `fib(NUM_ROWS - 1) == public_inputs[2]`.
fn honest_proof(config: &StarkConfig) -> (S, StarkProofWithPublicInputs<F, C, D>) {
    let public_inputs = [F::ZERO, F::ONE, fibonacci(NUM_ROWS - 1, F::ZERO, F::ONE)];
    let stark = S::new(NUM_ROWS);
    let trace = stark.generate_trace(public_inputs[0], public_inputs[1]);
    let proof = prove::<F, C, S, D>(
        stark,
        config,
        trace,
        &public_inputs,
        None,
        &mut TimingTree::default(),
    )
    .expect("honest proof generation");
    verify_stark_proof(stark, proof.clone(), config, None).expect("the honest proof must verify");
    (stark, proof)
}

// ---------------------------------------------------------------------------------------------
// D5: panics before validation.
// ---------------------------------------------------------------------------------------------

/// D5 (a): no query rounds at all. `verify_stark_proof -> get_challenges ->
/// recover_degree_bits` indexes `query_round_proofs[0]` before any shape validation.
#[test]
fn d5a_no_query_rounds_panics_in_verify_stark_proof() {
    let config = StarkConfig::standard_fast_config();
    let (stark, mut proof) = honest_proof(&config);
    proof.proof.opening_proof.query_round_proofs.clear();
    expect_panic(
        "D5a verify_stark_proof(query_round_proofs cleared)",
        "index out of bounds",
        || verify_stark_proof(stark, proof, &config, None),
    );
}

/// D5 (b): the first query round has no initial-tree openings:
/// `recover_degree_bits` indexes `evals_proofs[0]`.
#[test]
fn d5b_no_initial_tree_openings_panics_in_verify_stark_proof() {
    let config = StarkConfig::standard_fast_config();
    let (stark, mut proof) = honest_proof(&config);
    proof.proof.opening_proof.query_round_proofs[0]
        .initial_trees_proof
        .evals_proofs
        .clear();
    expect_panic(
        "D5b verify_stark_proof(query_round_proofs[0].initial_trees_proof.evals_proofs cleared)",
        "index out of bounds",
        || verify_stark_proof(stark, proof, &config, None),
    );
}

// ---------------------------------------------------------------------------------------------
// D6: soundness.
// ---------------------------------------------------------------------------------------------

/// A malicious prover for STARKs without lookups / CTLs, derived from
/// `crate::prover::{prove, prove_with_commitment}`.
///
/// Differences with the honest prover:
/// * `check_constraints` (a debug-only self-check of the prover) is skipped;
/// * no quotient cap is observed by the challenger before drawing `zeta`;
/// * the "quotient" polynomials are chosen AFTER `zeta` is known, as degree-1 polynomials over
///   the base field interpolating the value that the verifier will expect at `zeta`;
/// * they are still committed to and passed to `prove_openings` as the last FRI oracle (so the
///   FRI opening proof is an honest one for these polynomials), but the returned proof carries
///   `quotient_polys_cap: None`.
fn evil_prove<F, C, S, const D: usize>(
    stark: &S,
    config: &StarkConfig,
    trace_poly_values: Vec<PolynomialValues<F>>,
    public_inputs: &[F],
    timing: &mut TimingTree,
) -> Result<(StarkProofWithPublicInputs<F, C, D>, MerkleCap<F, C::Hasher>)>
where
    F: RichField + Extendable<D>,
    C: GenericConfig<D, F = F>,
    S: Stark<F, D>,
{
    assert_eq!(D, 2, "the interpolation below is written for D = 2");
    assert!(!stark.uses_lookups() && !stark.requires_ctls());
    assert!(stark.quotient_degree_factor() >= 1);

    let degree = trace_poly_values[0].len();
    let degree_bits = log2_strict(degree);
    let fri_params = config.fri_params(degree_bits);
    let rate_bits = config.fri_config.rate_bits;
    let cap_height = config.fri_config.cap_height;

    // ---- as in `prove` ----
    let trace_commitment = PolynomialBatch::<F, C, D>::from_values(
        trace_poly_values,
        rate_bits,
        false,
        cap_height,
        timing,
        None,
    );
    let trace_cap = trace_commitment.merkle_tree.cap.clone();
    let mut challenger = Challenger::<F, C::Hasher>::new();
    challenger.observe_elements(public_inputs);
    config.observe(&mut challenger);
    challenger.observe_cap(&trace_cap);

    // ---- as in `prove_with_commitment` (no lookups, no CTLs, no auxiliary polynomials) ----
    let alphas_prime = challenger.get_n_challenges(config.num_challenges);

    // (skipped: `check_constraints`, which is a debug-only self-check of the prover.)

    let g = F::primitive_root_of_unity(degree_bits);

    // "Bind" the constraints: simulated openings, evaluated constraints observed.
    let total_num_dummy_extension_evals = trace_commitment.polynomials.len() * 2;
    let pow_degree = core::cmp::max(2, stark.constraint_degree() + 1);
    let num_extension_powers = core::cmp::max(1, 50 / log2_ceil(pow_degree) - 1);
    let simulating_zetas = challenger
        .get_n_extension_challenges(total_num_dummy_extension_evals.div_ceil(num_extension_powers));
    let nb_dummy_per_zeta =
        core::cmp::min(num_extension_powers + 1, total_num_dummy_extension_evals);
    let dummy_extension_evals = simulating_zetas
        .iter()
        .flat_map(|&zeta| {
            successors(Some(zeta), move |prev| {
                Some(prev.exp_u64(pow_degree as u64))
            })
            .take(nb_dummy_per_zeta)
        })
        .collect::<Vec<_>>();
    let next_values_start = S::COLUMNS;
    let auxiliary_polys_start = S::COLUMNS * 2;
    let poly_evals = StarkOpeningSet {
        local_values: dummy_extension_evals[..next_values_start].to_vec(),
        next_values: dummy_extension_evals[next_values_start..auxiliary_polys_start].to_vec(),
        auxiliary_polys: None,
        auxiliary_polys_next: None,
        ctl_zs_first: None,
        quotient_polys: None,
    };
    let zeta_prime = challenger.get_extension_challenge::<D>();
    let constraints = compute_eval_vanishing_poly::<F, S, D>(
        stark,
        &poly_evals,
        None,
        None,
        &[],
        public_inputs,
        alphas_prime,
        zeta_prime,
        degree_bits,
        0,
    );
    challenger.observe_extension_elements(&constraints);

    let alphas = challenger.get_n_challenges(config.num_challenges);

    // ---- THE ATTACK ----
    // The honest prover would now compute the quotient polynomials, commit to them and let the
    // challenger observe the cap. We do none of that: with `quotient_polys_cap == None` the
    // verifier does not observe anything here either, so we already know `zeta`.
    let zeta = challenger.get_extension_challenge::<D>();
    ensure!(
        zeta.exp_power_of_2(degree_bits) != F::Extension::ONE,
        "Opening point is in the subgroup."
    );

    // Honest openings of the trace at `zeta` and `g * zeta`.
    let trace_openings =
        StarkOpeningSet::new(zeta, g, &trace_commitment, None, None, 0, false, &[]);

    // What the verifier will compute as `vanishing_polys_zeta` (one entry per challenge alpha):
    // `compute_eval_vanishing_poly` runs `eval_vanishing_poly` with
    // `ConstraintConsumer::new(alphas, zeta - g^-1, l_0(zeta), l_last(zeta))`, exactly like
    // `verify_stark_proof_with_challenges`.
    let vanishing_polys_zeta = compute_eval_vanishing_poly::<F, S, D>(
        stark,
        &trace_openings,
        None,
        None,
        &[],
        public_inputs,
        alphas,
        zeta,
        degree_bits,
        0,
    );
    let z_h_zeta = zeta.exp_power_of_2(degree_bits) - F::Extension::ONE;

    // The verifier checks, for every challenge `i`,
    //     vanishing_polys_zeta[i] == z_h_zeta * reduce_with_powers(chunk_i, zeta^n)
    // where `chunk_i` holds the `quotient_degree_factor` openings `t_{i,0}(zeta), t_{i,1}(zeta)..`.
    // Take `t_{i,0}(X) = a + b X` over the base field with `t_{i,0}(zeta) = q_i`, the other chunks
    // zero. Writing `q = q0 + q1 w`, `zeta = z0 + z1 w`: `b = q1 / z1`, `a = q0 - b z0`.
    let zeta_limbs = zeta.to_basefield_array();
    let (z0, z1) = (zeta_limbs[0], zeta_limbs[1]);
    ensure!(z1 != F::ZERO, "zeta is in the base field (negligible)");
    let mut fake_quotient_chunks = Vec::new();
    for &vanishing in &vanishing_polys_zeta {
        let q = vanishing / z_h_zeta;
        let q_limbs = q.to_basefield_array();
        let (q0, q1) = (q_limbs[0], q_limbs[1]);
        let b = q1 / z1;
        let a = q0 - b * z0;
        let mut coeffs = vec![F::ZERO; degree];
        coeffs[0] = a;
        coeffs[1] = b;
        fake_quotient_chunks.push(PolynomialCoeffs::new(coeffs));
        for _ in 1..stark.quotient_degree_factor() {
            fake_quotient_chunks.push(PolynomialCoeffs::new(vec![F::ZERO; degree]));
        }
    }
    assert_eq!(fake_quotient_chunks.len(), stark.num_quotient_polys(config));

    // Commit to them, so that the FRI proof (which is honest about what it opens) can be built.
    // The cap of this commitment is NOT observed and NOT sent.
    let fake_quotient_commitment = PolynomialBatch::<F, C, D>::from_coeffs(
        fake_quotient_chunks,
        rate_bits,
        false,
        cap_height,
        timing,
        None,
    );

    let openings = StarkOpeningSet::new(
        zeta,
        g,
        &trace_commitment,
        None,
        Some(&fake_quotient_commitment),
        0,
        false,
        &[],
    );
    challenger.observe_openings(&openings.to_fri_openings());

    let initial_merkle_trees = vec![&trace_commitment, &fake_quotient_commitment];
    let opening_proof = PolynomialBatch::prove_openings(
        &stark.fri_instance(zeta, g, 0, vec![], config),
        &initial_merkle_trees,
        &mut challenger,
        &fri_params,
        None,
        None,
        timing,
    );

    let proof = StarkProofWithPublicInputs {
        proof: StarkProof {
            trace_cap,
            auxiliary_polys_cap: None,
            // <- the whole point.
            quotient_polys_cap: None,
            openings,
            opening_proof,
        },
        public_inputs: public_inputs.to_vec(),
    };
    // The cap of the fake quotient commitment is returned only for the control experiment.
    Ok((proof, fake_quotient_commitment.merkle_tree.cap.clone()))
}

/// Sanity check of the demo itself: the statement used in D6 is indeed false, i.e. the honest
/// prover's quotient does not exist for it. (`prove` runs `check_constraints` in debug builds,
/// which panics on a violated constraint.)
#[test]
fn d6_sanity_false_statement_is_rejected_by_honest_prover() {
    let config = StarkConfig::standard_fast_config();
    let fib_n = fibonacci(NUM_ROWS - 1, F::ZERO, F::ONE);
    let public_inputs = [F::ZERO, F::ONE, fib_n + F::from_canonical_u64(12345)];
    let stark = S::new(NUM_ROWS);
    let trace = stark.generate_trace(public_inputs[0], public_inputs[1]);
    let res = catch_unwind(AssertUnwindSafe(|| {
        prove::<F, C, S, D>(
            stark,
            &config,
            trace,
            &public_inputs,
            None,
            &mut TimingTree::default(),
        )
    }));
    match res {
        Err(payload) => println!(
            "[D6 sanity] honest prover refuses the false statement: {}",
            panic_message(payload)
        ),
        Ok(Err(e)) => println!("[D6 sanity] honest prover refuses the false statement: {e}"),
        Ok(Ok(_)) => panic!("the honest prover produced a proof of a false statement?!"),
    }
}

/// D6: `verify_stark_proof` ACCEPTS a proof of the FALSE statement
/// "the Fibonacci sequence starting at (0, 1) has `fib(NUM_ROWS - 1) + 12345` in its last row".
#[test]
fn d6_false_statement_accepted_when_quotient_cap_is_none() {
    let config = StarkConfig::standard_fast_config();
    let fib_n = fibonacci(NUM_ROWS - 1, F::ZERO, F::ONE);
    let false_output = fib_n + F::from_canonical_u64(12345);
    assert_ne!(false_output, fib_n);
    let public_inputs = [F::ZERO, F::ONE, false_output];

    let stark = S::new(NUM_ROWS);
    // An honest trace of the real sequence; its last row holds `fib_n`, not `false_output`.
    let trace = stark.generate_trace(public_inputs[0], public_inputs[1]);
    assert_eq!(trace[1].values[NUM_ROWS - 1], fib_n);

    let (proof, fake_quotient_cap) = evil_prove::<F, C, S, D>(
        &stark,
        &config,
        trace,
        &public_inputs,
        &mut TimingTree::default(),
    )
    .expect("evil_prove");
    assert!(proof.proof.quotient_polys_cap.is_none());
    assert_eq!(proof.public_inputs[2], false_output);

    // Control experiment: the very same forged proof, but sent WITH the cap of the fake quotient
    // commitment, is rejected (the cap is then absorbed before `zeta` is drawn, so the prover
    // could not have known `zeta` when choosing the quotient). `None` is what breaks soundness.
    let mut with_cap = proof.clone();
    with_cap.proof.quotient_polys_cap = Some(fake_quotient_cap);
    let control = verify_stark_proof(stark, with_cap, &config, None);
    println!("[D6 control] same forged proof with quotient_polys_cap = Some(..): {control:?}");
    assert!(control.is_err());

    let result = verify_stark_proof(stark, proof, &config, None);
    println!(
        "[D6] verify_stark_proof(FALSE statement: claimed output {false_output} != real output \
         {fib_n}, quotient_polys_cap = None) returned: {result:?}"
    );
    assert!(
        result.is_ok(),
        "[D6] the forged proof was rejected (defect absent / fixed): {result:?}"
    );
}
