//! Demonstration for seeded defect C06/2.
//!
//! A valid inner proof is malformed by appending one extra field element to one initial-tree leaf
//! (the opened row of the wires oracle) of one FRI query round. The native verifier rejects this
//! proof (wrong shape, and the leaf no longer hashes to the committed cap). The in-circuit
//! verifier, fed through `set_proof_with_pis_target`, must not accept it either.

use std::panic::{catch_unwind, AssertUnwindSafe};

use plonky2::field::types::Field;
use plonky2::gates::noop::NoopGate;
use plonky2::iop::witness::{PartialWitness, WitnessWrite};
use plonky2::plonk::circuit_builder::CircuitBuilder;
use plonky2::plonk::circuit_data::{CircuitConfig, CircuitData};
use plonky2::plonk::config::{GenericConfig, PoseidonGoldilocksConfig};
use plonky2::plonk::proof::ProofWithPublicInputs;

const D: usize = 2;
type C = PoseidonGoldilocksConfig;
type F = <C as GenericConfig<D>>::F;

fn inner_circuit(config: &CircuitConfig) -> (CircuitData<F, C, D>, ProofWithPublicInputs<F, C, D>) {
    let mut builder = CircuitBuilder::<F, D>::new(config.clone());
    let a = builder.add_virtual_target();
    let b = builder.add_virtual_target();
    let c = builder.mul(a, b);
    builder.register_public_input(a);
    builder.register_public_input(c);
    for _ in 0..200 {
        builder.add_gate(NoopGate, vec![]);
    }
    let data = builder.build::<C>();
    let mut pw = PartialWitness::new();
    pw.set_target(a, F::from_canonical_u64(3)).unwrap();
    pw.set_target(b, F::from_canonical_u64(5)).unwrap();
    let proof = data.prove(pw).unwrap();
    data.verify(proof.clone()).unwrap();
    (data, proof)
}

/// Returns true iff the outer circuit accepts the assignment derived from `inner_proof`:
/// witness assignment, witness generation + proving, and verification of the outer proof all
/// succeed (and the outer proof re-exposes the inner public inputs).
fn outer_accepts(
    inner: &CircuitData<F, C, D>,
    outer_config: &CircuitConfig,
    inner_proof: &ProofWithPublicInputs<F, C, D>,
) -> bool {
    let mut builder = CircuitBuilder::<F, D>::new(outer_config.clone());
    let pt = builder.add_virtual_proof_with_pis(&inner.common);
    let vdt = builder.add_virtual_verifier_data(inner.common.config.fri_config.cap_height);
    builder.verify_proof::<C>(&pt, &vdt, &inner.common);
    builder.register_public_inputs(&pt.public_inputs);
    let outer = builder.build::<C>();

    let res = catch_unwind(AssertUnwindSafe(|| -> anyhow::Result<()> {
        let mut pw = PartialWitness::new();
        pw.set_proof_with_pis_target(&pt, inner_proof)?;
        pw.set_verifier_data_target(&vdt, &inner.verifier_only)?;
        let outer_proof = outer.prove(pw)?;
        anyhow::ensure!(outer_proof.public_inputs == inner_proof.public_inputs);
        outer.verify(outer_proof)
    }));
    match res {
        Ok(Ok(())) => true,
        Ok(Err(e)) => {
            println!("outer circuit rejected: {e}");
            false
        }
        Err(_) => {
            println!("outer circuit rejected (panic)");
            false
        }
    }
}

#[test]
fn d9_surplus_elements_are_rejected_in_circuit() {
    let config = CircuitConfig::standard_recursion_config();
    let (inner, proof) = inner_circuit(&config);
    assert!(inner.verify(proof.clone()).is_ok());
    assert!(outer_accepts(&inner, &config, &proof), "valid inner proof must be accepted by the outer circuit");

    let mut cases: Vec<(&str, ProofWithPublicInputs<F, C, D>)> = vec![];

    // a surplus FRI reduction step (a copy of the last one) in query round 3
    let mut bad = proof.clone();
    let last = bad.proof.opening_proof.query_round_proofs[3].steps.last().unwrap().clone();
    bad.proof.opening_proof.query_round_proofs[3].steps.push(last);
    cases.push(("surplus FRI step", bad));

    // a surplus entry in the wires cap
    let mut bad = proof.clone();
    let h = bad.proof.wires_cap.0[0];
    bad.proof.wires_cap.0.push(h);
    cases.push(("surplus wires_cap entry", bad));

    // a surplus entry in a commit-phase cap
    let mut bad = proof.clone();
    let h = bad.proof.opening_proof.commit_phase_merkle_caps[0].0[0];
    bad.proof.opening_proof.commit_phase_merkle_caps[0].0.push(h);
    cases.push(("surplus commit-phase cap entry", bad));

    // a surplus opening value (debug builds stop this one with a debug_assert panic; release builds do not)
    let mut bad = proof.clone();
    let v = bad.proof.openings.quotient_polys[0];
    bad.proof.openings.quotient_polys.push(v);
    cases.push(("surplus quotient opening", bad));

    let mut failures = vec![];
    for (what, bad) in cases {
        let native = inner.verify(bad.clone());
        println!("{what}: native verifier: {native:?}");
        assert!(native.is_err(), "native verifier must reject: {what}");
        if outer_accepts(&inner, &config, &bad) {
            println!("D9 {what}: ACCEPTED IN-CIRCUIT");
            failures.push(what);
        } else {
            println!("D9 {what}: rejected in-circuit");
        }
    }
    assert!(failures.is_empty(), "natively rejected proofs accepted in-circuit: {failures:?}");
}
