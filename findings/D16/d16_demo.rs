//! D16: decoding a Keccak digest (`BytesHash<N>`) from a byte string of the wrong length must fail with an error, not panic.
use plonky2::hash::hash_types::BytesHash;

#[test]
fn d16_byteshash_wrong_length_is_an_error() {
    // CBOR: 0x43 = byte string of length 3
    let short: &[u8] = &[0x43, 1, 2, 3];
    let r = std::panic::catch_unwind(|| serde_cbor::from_slice::<BytesHash<25>>(short));
    match &r {
        Ok(Err(e)) => println!("D16 wrong-length digest: Err({e})"),
        Ok(Ok(_)) => println!("D16 wrong-length digest: ACCEPTED"),
        Err(_) => println!("D16 wrong-length digest: decoder PANICKED"),
    }
    assert!(matches!(r, Ok(Err(_))), "decoder must return Err");
    // a well-formed 25-byte string still decodes
    let mut good = vec![0x58, 25];
    good.extend((0..25u8).collect::<Vec<_>>());
    let h = serde_cbor::from_slice::<BytesHash<25>>(&good).unwrap();
    assert_eq!(h.0[24], 24);
}
