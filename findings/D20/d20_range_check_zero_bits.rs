//! D20: `range_check(x, 0)` (x < 2^0, i.e. x == 0) must not be satisfiable with x != 0.
use plonky2::field::types::Field;
use plonky2::iop::witness::{PartialWitness, WitnessWrite};
use plonky2::plonk::circuit_builder::CircuitBuilder;
use plonky2::plonk::circuit_data::CircuitConfig;
use plonky2::plonk::config::{GenericConfig, PoseidonGoldilocksConfig};

const D: usize = 2;
type C = PoseidonGoldilocksConfig;
type F = <C as GenericConfig<D>>::F;

fn run(value: u64) -> bool {
    let mut builder = CircuitBuilder::<F, D>::new(CircuitConfig::standard_recursion_config());
    let x = builder.add_virtual_target();
    builder.register_public_input(x);
    builder.range_check(x, 0);
    let data = builder.build::<C>();
    let mut pw = PartialWitness::new();
    pw.set_target(x, F::from_canonical_u64(value)).unwrap();
    let res = std::panic::catch_unwind(std::panic::AssertUnwindSafe(|| match data.prove(pw) {
        Ok(p) => data.verify(p).is_ok(),
        Err(_) => false,
    }));
    res.unwrap_or(false)
}

#[test]
fn range_check_zero_bits_accepts_zero() {
    assert!(run(0));
}

#[test]
fn range_check_zero_bits_rejects_nonzero() {
    assert!(!run(12345), "a proof that 12345 < 2^0 was produced and verified");
}
