//! Side observations on the UNMODIFIED code (not seeded changes): inner proofs that the native
//! verifier rejects for their shape, but whose derived assignment satisfies the outer circuit.

use std::panic::{catch_unwind, AssertUnwindSafe};

use plonky2::field::extension::Extendable;
use plonky2::field::types::Field;
use plonky2::fri::reduction_strategies::FriReductionStrategy;
use plonky2::fri::FriConfig;
use plonky2::iop::witness::{PartialWitness, WitnessWrite};
use plonky2::plonk::circuit_builder::CircuitBuilder;
use plonky2::plonk::circuit_data::{CircuitConfig, CircuitData};
use plonky2::plonk::config::{GenericConfig, PoseidonGoldilocksConfig};
use plonky2::plonk::proof::ProofWithPublicInputs;

const D: usize = 2;
type C = PoseidonGoldilocksConfig;
type F = <C as GenericConfig<D>>::F;
type FE = <F as Extendable<D>>::Extension;

fn small_config() -> CircuitConfig {
    CircuitConfig {
        security_bits: 3,
        fri_config: FriConfig {
            rate_bits: 3,
            cap_height: 1,
            proof_of_work_bits: 3,
            reduction_strategy: FriReductionStrategy::ConstantArityBits(4, 5),
            num_query_rounds: 2,
        },
        ..CircuitConfig::standard_recursion_config()
    }
}

fn inner_proof() -> (CircuitData<F, C, D>, ProofWithPublicInputs<F, C, D>) {
    let mut builder = CircuitBuilder::<F, D>::new(small_config());
    let x = builder.add_virtual_target();
    let y = builder.square(x);
    builder.register_public_input(y);
    let inner = builder.build::<C>();
    let mut pw = PartialWitness::new();
    pw.set_target(x, F::from_canonical_u64(7)).unwrap();
    let proof = inner.prove(pw).unwrap();
    inner.verify(proof.clone()).unwrap();
    (inner, proof)
}

fn outer_accepts(inner: &CircuitData<F, C, D>, proof: &ProofWithPublicInputs<F, C, D>) -> bool {
    let mut builder = CircuitBuilder::<F, D>::new(CircuitConfig::standard_recursion_config());
    let pt = builder.add_virtual_proof_with_pis(&inner.common);
    let vdt = builder.add_virtual_verifier_data(inner.common.config.fri_config.cap_height);
    builder.verify_proof::<C>(&pt, &vdt, &inner.common);
    builder.register_public_inputs(&pt.public_inputs);
    let outer = builder.build::<C>();

    catch_unwind(AssertUnwindSafe(|| {
        let mut pw = PartialWitness::new();
        if pw.set_proof_with_pis_target(&pt, proof).is_err() {
            return false;
        }
        if pw
            .set_verifier_data_target(&vdt, &inner.verifier_only)
            .is_err()
        {
            return false;
        }
        match outer.prove(pw) {
            Ok(p) => outer.verify(p).is_ok(),
            Err(_) => false,
        }
    }))
    .unwrap_or(false)
}

/// Without FRI reduction steps the final polynomial is the batched quotient itself, of degree at
/// most n - 2, so its last coefficient is zero. Dropping that coefficient gives a proof of the
/// wrong shape (natively rejected) that the witness assignment silently zero-pads back.
#[test]
fn side_observation_truncated_final_poly() {
    let (inner, proof) = inner_proof();
    assert!(inner.common.fri_params.reduction_arity_bits.is_empty());
    let mut bad = proof.clone();
    let last = bad.proof.opening_proof.final_poly.coeffs.pop().unwrap();
    println!("dropped final_poly coefficient: {last:?}");
    assert_eq!(last, FE::ZERO);
    let native = inner.verify(bad.clone());
    println!("native verifier on truncated proof: {native:?}");
    let outer = outer_accepts(&inner, &bad);
    println!("outer circuit accepts truncated proof: {outer}");
    println!(
        "SIDE OBSERVATION (truncated final_poly): native_rejects={} outer_accepts={}",
        native.is_err(),
        outer
    );
}

/// Moving the boundary between two adjacent opening vectors leaves the concatenated FRI batch
/// unchanged, which is all the witness assignment looks at.
#[test]
fn side_observation_repartitioned_openings() {
    let (inner, proof) = inner_proof();
    let mut bad = proof.clone();
    let moved = bad.proof.openings.constants.pop().unwrap();
    bad.proof.openings.plonk_sigmas.insert(0, moved);
    let native = inner.verify(bad.clone());
    println!("native verifier on repartitioned proof: {native:?}");
    let outer = outer_accepts(&inner, &bad);
    println!(
        "D14 (repartitioned openings): native_rejects={} outer_accepts={}",
        native.is_err(),
        outer
    );
    assert!(native.is_err());
    assert!(!outer, "D14: natively rejected proof (openings re-partitioned) accepted in-circuit");
}
