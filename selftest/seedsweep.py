#!/usr/bin/env python3
"""Apply every kept seeded change (seeded/*/patch.diff) to a scratch copy of /repo, run ALL claimed checks, record which rules fire.
Writes seeded/RESULTS.json and seeded/RESULTS.md.  usage: seedsweep.py [name ...]"""
import sys, os, subprocess, shutil, tempfile, json, re, glob
V = os.path.dirname(os.path.dirname(os.path.abspath(__file__)))
outfile = None
if '--out' in sys.argv:
    i_ = sys.argv.index('--out')
    outfile = sys.argv[i_ + 1]
    del sys.argv[i_:i_ + 2]
names = sys.argv[1:] or sorted(os.path.basename(os.path.dirname(p)) for p in glob.glob(os.path.join(V, 'seeded', '*', 'patch.diff')))
resf = outfile or os.path.join(V, 'seeded', 'RESULTS.json')
res = json.load(open(resf)) if os.path.exists(resf) else {}
for nm in names:
    d = os.path.join(V, 'seeded', nm)
    meta = json.load(open(os.path.join(d, 'meta.json')))
    tmp = tempfile.mkdtemp(prefix='pvseed-')
    try:
        subprocess.check_call(['rsync', '-a', '--exclude', 'target', '--exclude', '.git', '/repo/', tmp + '/'])
        r = subprocess.run(['patch', '-p1', '-s', '-d', tmp, '-i', os.path.join(d, 'patch.diff')], stdout=subprocess.PIPE, stderr=subprocess.STDOUT, text=True)
        if r.returncode != 0:
            res[nm] = {'error': 'patch does not apply: ' + r.stdout[-200:]}
            continue
        r = subprocess.run([os.path.join(V, 'pv'), 'all'], env=dict(os.environ, PV_REPO=tmp), cwd=V, stdout=subprocess.PIPE, stderr=subprocess.STDOUT, text=True)
        for pid_, tier_ in meta.get('extra_checks', []):
            # changes in cfg-gated code (the AVX2 packed field) are only visible to the thorough tier, which analyses the other builds too
            r2 = subprocess.run([os.path.join(V, 'pv'), 'check', pid_, '--tier', tier_], env=dict(os.environ, PV_REPO=tmp), cwd=V, stdout=subprocess.PIPE, stderr=subprocess.STDOUT, text=True)
            r.stdout += r2.stdout
        if 'Traceback' in r.stdout or 'no verdict' in r.stdout:
            res[nm] = {'error': 'checker crashed / no verdict: ' + r.stdout[-300:]}
            print(nm, 'CHECKER-ERROR', r.stdout[-300:], flush=True)
            continue
        fired = {}
        cur = None
        for line in r.stdout.splitlines():
            m = re.match(r'VIOLATION property=(C\d+)', line)
            if m:
                cur = m.group(1)
                continue
            m = re.search(r'rule (R[\d.]+)\s+instance (\S+)', line)
            if m and cur:
                fired.setdefault(cur, [])
                if len(fired[cur]) < 4:
                    fired[cur].append(m.group(1) + ' ' + m.group(2))
        res[nm] = {'property': meta['property'], 'fired': fired, 'caught': bool(fired), 'caught_by_own_property': meta['property'] in fired}
        print(nm, 'CAUGHT' if fired else 'MISSED', {k: v[:2] for k, v in fired.items()}, flush=True)
    finally:
        shutil.rmtree(tmp, ignore_errors=True)
    json.dump(res, open(resf, 'w'), indent=1, sort_keys=True)
if outfile:
    sys.exit(0)
# restore evidence of the real tree
subprocess.run([os.path.join(V, 'pv'), 'all'], cwd=V, stdout=subprocess.DEVNULL)
with open(os.path.join(V, 'seeded', 'RESULTS.md'), 'w') as fh:
    fh.write('| seeded change | breaks | caught | rules that fire (first few) |\n|---|---|---|---|\n')
    for nm in sorted(res):
        r = res[nm]
        if 'error' in r:
            fh.write('| %s | ? | error | %s |\n' % (nm, r['error']))
            continue
        fh.write('| %s | %s | %s | %s |\n' % (nm, r['property'], 'yes' if r['caught'] else '**no**', '; '.join('%s: %s' % (k, ', '.join(v[:2])) for k, v in sorted(r['fired'].items()))))
