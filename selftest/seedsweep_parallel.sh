#!/bin/bash
# seedsweep_parallel.sh [N]: sweep all kept seeds with N workers (default 5), then merge into seeded/RESULTS.{json,md}
cd "$(dirname "$0")/.."
N=${1:-5}
ls seeded | grep -v RESULTS > /tmp/pv_seed_names.txt
rm -f /tmp/pv_sweep_part_*.json
for k in $(seq 0 $((N-1))); do
  names=$(awk -v n=$N -v k=$k 'NR % n == k' /tmp/pv_seed_names.txt | tr '\n' ' ')
  python3 selftest/seedsweep.py --out /tmp/pv_sweep_part_$k.json $names > /tmp/pv_sweep_part_$k.log 2>&1 &
done
wait
python3 - <<'PY'
import json, glob
res = {}
for f in glob.glob('/tmp/pv_sweep_part_*.json'):
    res.update(json.load(open(f)))
json.dump(res, open('seeded/RESULTS.json', 'w'), indent=1, sort_keys=True)
with open('seeded/RESULTS.md', 'w') as fh:
    fh.write('| seeded change | breaks | caught | rules that fire (first few) |\n|---|---|---|---|\n')
    for nm in sorted(res):
        r = res[nm]
        if 'error' in r:
            fh.write('| %s | ? | error | %s |\n' % (nm, r['error'][:120].replace('\n', ' ')))
            continue
        fh.write('| %s | %s | %s | %s |\n' % (nm, r['property'], 'yes' if r['caught'] else '**no**', '; '.join('%s: %s' % (k, ', '.join(v[:2])) for k, v in sorted(r['fired'].items()))))
print(len(res), 'seeds;', sum(1 for r in res.values() if r.get('caught')), 'caught;', sum(1 for r in res.values() if r.get('caught_by_own_property')), 'by own property')
PY
