#!/usr/bin/env python3
"""Run checks against a scratch copy of /repo with a mutation applied (development aid).
usage: mutrun.py [--patch FILE]... [--sub FILE OLD NEW]... -- C05 C03 ...
The scratch copy lives under /tmp (outside /repo and /verif) and is removed afterwards."""
import sys, os, subprocess, shutil, tempfile
V = os.path.dirname(os.path.dirname(os.path.abspath(__file__)))
args = sys.argv[1:]
patches, subs, checks = [], [], []
i = 0
while i < len(args):
    if args[i] == '--patch':
        patches.append(args[i + 1]); i += 2
    elif args[i] == '--sub':
        subs.append((args[i + 1], args[i + 2], args[i + 3])); i += 4
    elif args[i] == '--':
        checks = args[i + 1:]; break
    else:
        raise SystemExit('bad arg ' + args[i])
tmp = tempfile.mkdtemp(prefix='pvmut-')
try:
    subprocess.check_call(['rsync', '-a', '--exclude', 'target', '--exclude', '.git', '/repo/', tmp + '/'])
    for p in patches:
        r = subprocess.run(['patch', '-p1', '-s', '-d', tmp, '-i', os.path.abspath(p)])
        if r.returncode != 0:
            raise SystemExit('patch failed: ' + p)
    for f, old, new in subs:
        path = os.path.join(tmp, f)
        s = open(path).read()
        if s.count(old) < 1:
            raise SystemExit('substitution source not found in %s: %r' % (f, old))
        s = s.replace(old, new, 1)
        open(path, 'w').write(s)
    env = dict(os.environ, PV_REPO=tmp)
    rc = 0
    for c in checks:
        r = subprocess.run([os.path.join(V, 'pv'), 'check', c], env=env, cwd=V)
        rc |= r.returncode
    sys.exit(rc)
finally:
    shutil.rmtree(tmp, ignore_errors=True)
