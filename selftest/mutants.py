#!/usr/bin/env python3
"""Self-test mutants: (name, [(file, old, new)...], [checks], expected rule substring).
`./selftest/mutants.py [name...]` applies each to a scratch copy, runs the checks, records caught / missed."""
import sys, os, subprocess, json
V = os.path.dirname(os.path.dirname(os.path.abspath(__file__)))
M = [
 ('fri_final_poly_check_removed', [('plonky2/src/fri/verifier.rs', '    ensure!(\n        proof.final_poly.eval(subgroup_x.into()) == old_eval,\n        "Final polynomial evaluation is invalid."\n    );', '    let _ = proof.final_poly.eval(subgroup_x.into()) == old_eval;')], ['C05'], 'R05.1'),
 ('sponge_no_clear', [('plonky2/src/iop/challenger.rs', '        self.output_buffer.clear();\n\n        self.input_buffer.push(element);', '        self.input_buffer.push(element);')], ['C04'], 'R04.4'),
 ('drop_hiding_both_sides', [('plonky2/src/fri/mod.rs', '        challenger.observe_element(F::from_bool(self.hiding));', ''), ('plonky2/src/fri/mod.rs', '        challenger.observe_element(hiding);', '')], ['C04'], 'R04.1'),
 ('drop_openings_absorb_all', [('plonky2/src/plonk/get_challenges.rs', '    challenger.observe_openings(&openings.to_fri_openings());', ''), ('plonky2/src/plonk/prover.rs', '    challenger.observe_openings(&openings.to_fri_openings());', ''), ('plonky2/src/plonk/get_challenges.rs', '        challenger.observe_openings(&openings.to_fri_openings());', '')], ['C04'], 'R04.1'),
 ('circuit_only_drop_final_poly_absorb', [('plonky2/src/fri/challenges.rs', '        self.observe_extension_elements(&final_poly.0);', '')], ['C04'], 'R04.'),
 ('pow_check_removed', [('plonky2/src/fri/verifier.rs', '    fri_verify_proof_of_work(challenges.fri_pow_response, &params.config)?;\n\n    // Check that parameters are coherent.\n    ensure!(\n        params.config.num_query_rounds == proof.query_round_proofs.len(),', '    ensure!(\n        params.config.num_query_rounds == proof.query_round_proofs.len(),')], ['C05'], 'R05.1'),
 ('skip_last_query_round', [('plonky2/src/fri/verifier.rs', '        .zip(&proof.query_round_proofs)\n    {\n        fri_verifier_query_round', '        .zip(&proof.query_round_proofs)\n        .skip(1)\n    {\n        fri_verifier_query_round')], ['C05'], 'R05.1'),
 ('validator_after_use', [('plonky2/src/plonk/verifier.rs', '    validate_proof_with_pis_shape(&proof_with_pis, common_data)?;\n\n    let public_inputs_hash = proof_with_pis.get_public_inputs_hash();\n    let challenges = proof_with_pis.get_challenges(\n        public_inputs_hash,\n        &verifier_data.circuit_digest,\n        common_data,\n    )?;', '    let public_inputs_hash = proof_with_pis.get_public_inputs_hash();\n    let challenges = proof_with_pis.get_challenges(\n        public_inputs_hash,\n        &verifier_data.circuit_digest,\n        common_data,\n    )?;\n    validate_proof_with_pis_shape(&proof_with_pis, common_data)?;')], ['C18'], 'R18.3'),
 ('drop_wires_len_pin', [('plonky2/src/plonk/validate_shape.rs', '    ensure!(wires.len() == config.num_wires);\n', '')], ['C18'], 'R18.2'),
]
BEHAVIOUR_PRESERVING = [
 ('bp_ensure_as_if_bail', [('plonky2/src/fri/verifier.rs', '    ensure!(\n        proof.final_poly.eval(subgroup_x.into()) == old_eval,\n        "Final polynomial evaluation is invalid."\n    );', '    if proof.final_poly.eval(subgroup_x.into()) != old_eval {\n        anyhow::bail!("Final polynomial evaluation is invalid.");\n    }')], ['C05', 'C18'], None),
 ('bp_observe_elements_as_loop', [('plonky2/src/fri/mod.rs', '        challenger.observe_elements(&self.reduction_strategy.serialize());', '        for e in self.reduction_strategy.serialize() {\n            challenger.observe_element(e);\n        }')], ['C04'], None),
 ('bp_swap_independent_absorbs', [('plonky2/src/plonk/get_challenges.rs', '    challenger.observe_hash::<C::Hasher>(*circuit_digest);\n    challenger.observe_hash::<C::InnerHasher>(public_inputs_hash);', '    challenger.observe_hash::<C::InnerHasher>(public_inputs_hash);\n    challenger.observe_hash::<C::Hasher>(*circuit_digest);')], ['C04'], None),
]
def run(name, subs, checks):
    args = [os.path.join(V, 'selftest', 'mutrun.py')]
    for f, o, n in subs:
        args += ['--sub', f, o, n]
    args += ['--'] + checks
    r = subprocess.run(args, stdout=subprocess.PIPE, stderr=subprocess.STDOUT, text=True)
    return r.returncode, r.stdout
if __name__ == '__main__':
    want = set(sys.argv[1:])
    res = {}
    for name, subs, checks, exp in M + BEHAVIOUR_PRESERVING:
        if want and name not in want:
            continue
        rc, out = run(name, subs, checks)
        viol = [l for l in out.splitlines() if ' rule R' in l]
        if exp is None:
            verdict = 'silent(ok)' if rc == 0 else 'FALSE-ALARM'
        else:
            verdict = 'caught' if any(exp in l for l in viol) else ('caught-other' if rc == 1 else 'MISSED')
        if 'substitution source not found' in out or 'failed' in out.lower() and 'cargo check' in out:
            verdict = 'SETUP-ERROR: ' + out[-300:]
        print('%-40s %s   %s' % (name, verdict, (viol[0][:160] if viol else '')), flush=True)
        res[name] = verdict
    json.dump(res, open('/tmp/mutants_result.json', 'w'), indent=1)
