#!/usr/bin/env python3
"""Self-test mutants: (name, [(file, old, new)...], [checks], expected rule substring).
`./selftest/mutants.py [name...]` applies each to a scratch copy, runs the checks, records caught / missed."""
import sys, os, subprocess, json
V = os.path.dirname(os.path.dirname(os.path.abspath(__file__)))
M = [
 ('fri_final_poly_check_removed', [('plonky2/src/fri/verifier.rs', '    ensure!(\n        proof.final_poly.eval(subgroup_x.into()) == old_eval,\n        "Final polynomial evaluation is invalid."\n    );', '    let _ = proof.final_poly.eval(subgroup_x.into()) == old_eval;')], ['C05'], 'R05.1'),
 ('sponge_no_clear', [('plonky2/src/iop/challenger.rs', '        self.output_buffer.clear();\n\n        self.input_buffer.push(element);', '        self.input_buffer.push(element);')], ['C04'], 'R04.4'),
 ('drop_hiding_both_sides', [('plonky2/src/fri/mod.rs', '        challenger.observe_element(F::from_bool(self.hiding));', ''), ('plonky2/src/fri/mod.rs', '        challenger.observe_element(builder.constant(F::from_bool(self.hiding)));', '')], ['C04'], 'R04.1'),
 ('drop_openings_absorb_all', [('plonky2/src/plonk/get_challenges.rs', '    challenger.observe_openings(&openings.to_fri_openings());', ''), ('plonky2/src/plonk/prover.rs', '    challenger.observe_openings(&openings.to_fri_openings());', ''), ('plonky2/src/plonk/get_challenges.rs', '        challenger.observe_openings(&openings.to_fri_openings());', '')], ['C04'], 'R04.1'),
 ('circuit_only_drop_final_poly_absorb', [('plonky2/src/fri/challenges.rs', '        self.observe_extension_elements(&final_poly.0);', '')], ['C04'], 'R04.'),
 ('pow_check_removed', [('plonky2/src/fri/verifier.rs', '    fri_verify_proof_of_work(challenges.fri_pow_response, &params.config)?;\n\n    // Check that parameters are coherent.\n    ensure!(\n        params.config.num_query_rounds == proof.query_round_proofs.len(),', '    ensure!(\n        params.config.num_query_rounds == proof.query_round_proofs.len(),')], ['C05'], 'R05.1'),
 ('skip_last_query_round', [('plonky2/src/fri/verifier.rs', '        .zip(&proof.query_round_proofs)\n    {\n        fri_verifier_query_round', '        .zip(&proof.query_round_proofs)\n        .skip(1)\n    {\n        fri_verifier_query_round')], ['C05'], 'R05.1'),
 ('validator_after_use', [('plonky2/src/plonk/verifier.rs', '    validate_proof_with_pis_shape(&proof_with_pis, common_data)?;\n\n    let public_inputs_hash = proof_with_pis.get_public_inputs_hash();\n    let challenges = proof_with_pis.get_challenges(\n        public_inputs_hash,\n        &verifier_data.circuit_digest,\n        common_data,\n    )?;', '    let public_inputs_hash = proof_with_pis.get_public_inputs_hash();\n    let challenges = proof_with_pis.get_challenges(\n        public_inputs_hash,\n        &verifier_data.circuit_digest,\n        common_data,\n    )?;\n    validate_proof_with_pis_shape(&proof_with_pis, common_data)?;')], ['C18'], 'R18.3'),
 ('drop_wires_len_pin', [('plonky2/src/plonk/validate_shape.rs', '    ensure!(wires.len() == config.num_wires);\n', '')], ['C18'], 'R18.2'),
]
BEHAVIOUR_PRESERVING = [
 ('bp_ensure_as_if_bail', [('plonky2/src/fri/verifier.rs', '    ensure!(\n        proof.final_poly.eval(subgroup_x.into()) == old_eval,\n        "Final polynomial evaluation is invalid."\n    );', '    if proof.final_poly.eval(subgroup_x.into()) != old_eval {\n        anyhow::bail!("Final polynomial evaluation is invalid.");\n    }')], ['C05', 'C18'], None),
 ('bp_observe_elements_as_loop', [('plonky2/src/fri/mod.rs', '        challenger.observe_elements(&self.reduction_strategy.serialize());', '        for e in self.reduction_strategy.serialize() {\n            challenger.observe_element(e);\n        }')], ['C04'], None),
 ('bp_swap_independent_absorbs', [('plonky2/src/plonk/get_challenges.rs', '    challenger.observe_hash::<C::Hasher>(*circuit_digest);\n    challenger.observe_hash::<C::InnerHasher>(public_inputs_hash);', '    challenger.observe_hash::<C::InnerHasher>(public_inputs_hash);\n    challenger.observe_hash::<C::Hasher>(*circuit_digest);')], ['C04'], None),
]

M += [
 ('c06_circuit_final_poly_connect_removed', [('plonky2/src/fri/recursive_verifier.rs', '            proof.final_poly.eval_scalar(self, subgroup_x)\n        );\n        self.connect_extension(eval, old_eval);\n    }\n\n    fn fri_verifier_query_round_with_multiple_degree_bits', '            proof.final_poly.eval_scalar(self, subgroup_x)\n        );\n        let _ = (eval, old_eval);\n    }\n\n    fn fri_verifier_query_round_with_multiple_degree_bits')], ['C06'], 'R06.1'),
 ('c06_witness_quotient_cap_not_set', [('plonky2/src/iop/witness.rs', '        self.set_cap_target(&proof_target.quotient_polys_cap, &proof.quotient_polys_cap)?;\n', '')], ['C06'], 'R06.3'),
 ('c06_target_opening_order_swapped', [('plonky2/src/plonk/proof.rs', '                    self.wires.as_slice(),\n                    self.plonk_zs.as_slice(),\n                    self.partial_products.as_slice(),\n                    self.quotient_polys.as_slice(),\n                    self.lookup_zs.as_slice(),\n                ]\n                .concat(),\n            }\n        } else {\n            FriOpeningBatchTarget {', '                    self.plonk_zs.as_slice(),\n                    self.wires.as_slice(),\n                    self.partial_products.as_slice(),\n                    self.quotient_polys.as_slice(),\n                    self.lookup_zs.as_slice(),\n                ]\n                .concat(),\n            }\n        } else {\n            FriOpeningBatchTarget {')], ['C06'], 'R06.4'),
 ('c17_gate_field_dropped_both_sides', [('plonky2/src/gates/random_access.rs', '        dst.write_usize(self.num_extra_constants)?;\n', ''), ('plonky2/src/gates/random_access.rs', '        let num_extra_constants = src.read_usize()?;', '        let num_extra_constants = 0;')], ['C17'], 'R17.3'),
 ('c17_kind_changed_one_side', [('plonky2/src/gates/base_sum.rs', '        dst.write_usize(self.num_limbs)', '        dst.write_u32(self.num_limbs as u32)')], ['C17'], 'R17.1'),
 ('c19_constants_unsorted', [('plonky2/src/plonk/circuit_builder.rs', '            .sorted_by_key(|(c, _t)| c.to_canonical_u64())\n', '')], ['C19'], 'R19.1'),
 ('c19_gates_unsorted', [('plonky2/src/plonk/circuit_builder.rs', '        gates.sort_unstable_by_key(|g| (g.0.degree(), g.0.id()));\n', '')], ['C19'], 'R19.'),
 ('c12_right_digest_not_written', [('plonky2/src/hash/merkle_tree.rs', '        right_digest_mem.write(right_digest);\n', '')], ['C12'], 'R12.2'),
 ('c12_set_len_wrong_expr', [('plonky2/src/hash/merkle_tree.rs', '            digests.set_len(num_digests);', '            digests.set_len(num_digests + len_cap - len_cap);')], ['C12'], 'R12.1'),
 ('c09_transition_uses_first_row_filter', [('starky/src/constraint_consumer.rs', '        self.constraint(constraint * self.z_last);', '        self.constraint(constraint * self.lagrange_basis_first);')], ['C09'], 'R09.1'),
 ('c09_quotient_identity_skips_first_chunk', [('starky/src/verifier.rs', '        .flat_map(|x| x.chunks(stark.quotient_degree_factor()))\n        .enumerate()\n    {', '        .flat_map(|x| x.chunks(stark.quotient_degree_factor()))\n        .enumerate()\n        .skip(1)\n    {')], ['C09'], 'R09.2'),
 ('c20_select_hash_swapped_args', [('plonky2/src/recursion/conditional_recursive_verifier.rs', '            circuit_digest: self.select_hash(b, vk0.circuit_digest, vk1.circuit_digest),', '            circuit_digest: self.select_hash(b, vk1.circuit_digest, vk0.circuit_digest),')], ['C20'], 'R20.1'),
 ('c02_filter_not_applied', [('plonky2/src/gates/gate.rs', '            .map(|c| filter * c)\n', '            .map(|c| c)\n')], ['C02'], 'R02.3'),
]
BEHAVIOUR_PRESERVING += [
 ('bp_rename_param_verify_fri_proof', [('plonky2/src/fri/verifier.rs', '    proof: &FriProof<F, C::Hasher, D>,\n    params: &FriParams,\n) -> Result<()> {\n    validate_fri_proof_shape::<F, C, D>(proof, instance, params)?;', '    fri_proof: &FriProof<F, C::Hasher, D>,\n    params: &FriParams,\n) -> Result<()> {\n    let proof = fri_proof;\n    validate_fri_proof_shape::<F, C, D>(fri_proof, instance, params)?;')], ['C05', 'C03', 'C18'], None),
 ('bp_rename_local_in_inferred', [('plonky2/src/plonk/get_challenges.rs', '            for (i, &arity_bits) in common_data\n                .fri_params\n                .reduction_arity_bits\n                .iter()\n                .enumerate()\n            {\n                let coset_index = x_index >> arity_bits;', '            for (i, &ab) in common_data\n                .fri_params\n                .reduction_arity_bits\n                .iter()\n                .enumerate()\n            {\n                let arity_bits = ab;\n                let coset_index = x_index >> arity_bits;')], ['C16'], None),
 ('bp_ensure_as_match_in_validator', [('plonky2/src/plonk/validate_shape.rs', '    ensure!(wires.len() == config.num_wires);', '    if wires.len() != config.num_wires {\n        anyhow::bail!("wrong number of wires");\n    }')], ['C18', 'C03'], None),
 ('bp_select_cap_loop_instead_of_zip', [('plonky2/src/recursion/conditional_recursive_verifier.rs', '        MerkleCapTarget(\n            cap0.0\n                .iter()\n                .zip_eq(&cap1.0)\n                .map(|(h0, h1)| self.select_hash(b, *h0, *h1))\n                .collect(),\n        )', '        let mut out = Vec::new();\n        for i in 0..cap0.0.len() {\n            out.push(self.select_hash(b, cap0.0[i], cap1.0[i]));\n        }\n        MerkleCapTarget(out)')], ['C20'], None),
]

# ---- third batch: rules added after the round-2 seeds
M += [
 ('r2_set_extension_targets_guard_removed', [('plonky2/src/iop/witness.rs', '        if ets.len() < values.len() {\n            return Err(anyhow!(\n                "extension targets length is less than the values length: surplus values would be dropped"\n            ));\n        }\n', '')], ['C06'], 'R06.7'),
 ('r2_steps_guard_wrong_direction', [('plonky2/src/fri/witness_util.rs', '        if qt.steps.len() < q.steps.len() {', '        if q.steps.len() < qt.steps.len() {')], ['C06'], 'R06.7'),
 ('r2_d8_fix_reverted', [('starky/src/verifier.rs', '        stark.num_quotient_polys(config) > 0 && quotient_polys.len() == stark.num_quotient_polys(config)', '        quotient_polys.len() == stark.num_quotient_polys(config)')], ['C18'], 'R18.6'),
 ('r2_reader_partial_products_plus_one_dropped', [('plonky2/src/util/serialization/mod.rs', '                * (1 + common_data.num_partial_products + common_data.num_lookup_polys)', '                * (common_data.num_partial_products + common_data.num_lookup_polys)')], ['C17'], 'R17.5'),
 ('r2_reader_opening_len_wrong_field', [('plonky2/src/util/serialization/mod.rs', '        let plonk_sigmas = self.read_field_ext_vec::<F, D>(config.num_routed_wires)?;', '        let plonk_sigmas = self.read_field_ext_vec::<F, D>(config.num_wires)?;')], ['C17'], 'R17.5'),
 ('r2_circuit_pow_uses_outer_config', [('plonky2/src/recursion/recursive_verifier.rs', '                &inner_common_data.fri_params,', '                &self.config.fri_config.fri_params(inner_common_data.fri_params.degree_bits, false),')], ['C06'], 'R06.6'),
 ('r2_observe_cap_only_first_entry', [('plonky2/src/iop/challenger.rs', '        for &hash in &cap.0 {\n            self.observe_hash::<OH>(hash);\n        }', '        for &hash in cap.0.iter().take(1) {\n            self.observe_hash::<OH>(hash);\n        }')], ['C04'], 'R04.6'),
 ('r2_keccak_hash_or_noop_raw_repr', [('plonky2/src/plonk/config.rs', '.copy_from_slice(&inputs[i].to_canonical_u64().to_le_bytes());', '.copy_from_slice(&inputs[i].to_noncanonical_u64().to_le_bytes());')], ['C12'], 'R12.5'),
 ('r2_prover_squeezes_one_more_alpha', [('plonky2/src/plonk/prover.rs', '    let alphas = challenger.get_n_challenges(num_challenges);', '    let alphas = challenger.get_n_challenges(num_challenges + 1);')], ['C04'], 'R04.3'),
]
BEHAVIOUR_PRESERVING += [
 ('bp_set_cap_target_zip_eq', [('plonky2/src/iop/witness.rs', '        for (ht, h) in ct.0.iter().zip(&value.0) {', '        for (ht, h) in ct.0.iter().zip_eq(&value.0) {')], ['C06'], None),
 ('bp_steps_guard_reversed_operands', [('plonky2/src/fri/witness_util.rs', '        if qt.steps.len() < q.steps.len() {', '        if q.steps.len() > qt.steps.len() {')], ['C06'], None),
 ('bp_reader_len_respelled', [('plonky2/src/util/serialization/mod.rs', '            config.num_challenges\n                * (1 + common_data.num_partial_products + common_data.num_lookup_polys)\n                + salt,', '            common_data.num_lookup_polys * config.num_challenges\n                + salt\n                + (common_data.num_partial_products + 1) * config.num_challenges,')], ['C17'], None),
 ('bp_reader_len_via_helpers', [('plonky2/src/util/serialization/mod.rs', '            config.num_challenges\n                * (1 + common_data.num_partial_products + common_data.num_lookup_polys)\n                + salt,', '            common_data.num_zs_partial_products_polys() + common_data.num_all_lookup_polys() + salt,')], ['C17'], None),
 ('bp_is_routable_respelled', [('plonky2/src/iop/wire.rs', '        self.column < config.num_routed_wires', '        !(self.column >= config.num_routed_wires)')], ['C02'], None),
 ('bp_nb_dummy_respelled_in_prover', [('starky/src/prover.rs', '        core::cmp::min(num_extension_powers + 1, total_num_dummy_extension_evals);', '        core::cmp::min(total_num_dummy_extension_evals, 1 + num_extension_powers);')], ['C09'], None),
 ('bp_d8_fix_at_use_site', [('starky/src/verifier.rs', '        stark.num_quotient_polys(config) > 0 && quotient_polys.len() == stark.num_quotient_polys(config)', '        !quotient_polys.is_empty() && quotient_polys.len() == stark.num_quotient_polys(config)')], ['C18', 'C09'], None),
 ('bp_pow_witness_absorbed_in_helper', [('plonky2/src/fri/challenges.rs', '        self.observe_element(pow_witness);\n        let fri_pow_response = self.get_challenge();', '        self.observe_elements(&[pow_witness]);\n        let fri_pow_response = self.get_challenge();')], ['C04'], None),
 ('bp_validator_len_respelled', [('plonky2/src/plonk/validate_shape.rs', '    ensure!(partial_products.len() == config.num_challenges * common_data.num_partial_products);', '    ensure!(common_data.num_partial_products * config.num_challenges == partial_products.len());')], ['C17', 'C18', 'C03'], None),
]

M += [
 ('c13_circuit_hash_absorbs_width_chunks', [('plonky2/src/hash/hashing.rs', '        for input_chunk in inputs.chunks(H::AlgebraicPermutation::RATE) {', '        for input_chunk in inputs.chunks(H::AlgebraicPermutation::WIDTH) {')], ['C13'], 'R13.'),
 ('c13_squeeze_exposes_capacity', [('plonky2/src/hash/poseidon.rs', '        &self.state[..Self::RATE]', '        &self.state[..Self::WIDTH]')], ['C13'], 'R13.3'),
 ('c13_compress_second_input_misplaced', [('plonky2/src/hash/hashing.rs', '    perm.set_from_slice(&y.elements, NUM_HASH_OUT_ELTS);', '    perm.set_from_slice(&y.elements, NUM_HASH_OUT_ELTS + 1);')], ['C13'], 'R13.4'),
 ('c13_u160_carry_flag_dropped', [('plonky2/src/hash/poseidon.rs', '    let (res_lo, over) = x_lo.overflowing_add(y);\n    let res_hi = x_hi + (over as u32);', '    let (res_lo, _) = x_lo.overflowing_add(y);\n    let res_hi = x_hi;')], ['C13'], 'R13.9'),
 ('c14_reduce_borrow_flag_dropped', [('field/src/goldilocks_field.rs', '    let (mut t0, borrow) = x_lo.overflowing_sub(x_hi_hi);', '    let (mut t0, _) = x_lo.overflowing_sub(x_hi_hi);\n    let borrow = false;')], ['C14'], 'R14.6'),
 ('bp_c13_bounded_wrapping_add', [('plonky2/src/hash/poseidon.rs', '        let s0 = state[0].to_noncanonical_u64() as u128;\n        let mds0to0', '        let s0 = (state[0].to_noncanonical_u64() as u128).wrapping_add(0u128);\n        let mds0to0')], ['C13'], None),
 ('c13_challenger_absorbs_late', [('plonky2/src/iop/challenger.rs', '        if self.input_buffer.len() == H::Permutation::RATE {\n            self.duplexing();\n        }', '        if self.input_buffer.len() == H::Permutation::WIDTH {\n            self.duplexing();\n        }')], ['C13'], 'R13.2'),
]
BEHAVIOUR_PRESERVING += [
 ('bp_hash_rate_via_local', [('plonky2/src/hash/hashing.rs', '    for input_chunk in inputs.chunks(P::RATE) {', '    let rate = P::RATE;\n    for input_chunk in inputs.chunks(rate) {')], ['C13'], None),
]

# ---- fourth batch: round-3 rules
M += [
 ('r3_ctl_group_by_reintroduced', [('starky/src/cross_table_lookup.rs', '    let mut tables: Vec<usize> = vec![];\n    for looking_table in &looking_tables {\n        if !tables.contains(&looking_table.table) {\n            tables.push(looking_table.table);\n        }\n    }\n', '    let mut tables: Vec<usize> = looking_tables.iter().map(|t| t.table).collect();\n    tables.dedup();\n')], ['C10'], 'R10.6'),
 ('r3_random_access_base_loop_bits', [('plonky2/src/gates/random_access.rs', '        for copy in 0..self.num_copies {\n            let access_index = vars.local_wires[self.wire_access_index(copy)];\n            let mut list_items = (0..self.vec_size())\n                .map(|i| vars.local_wires[self.wire_list_item(i, copy)])\n                .collect::<Vec<_>>();\n            let claimed_element = vars.local_wires[self.wire_claimed_element(copy)];\n            let bits = (0..self.bits)\n                .map(|i| vars.local_wires[self.wire_bit(i, copy)])\n                .collect::<Vec<_>>();\n\n            // Assert that each bit wire value is indeed boolean.\n            for &b in &bits {\n                yield_constr.one', '        for copy in 0..self.bits {\n            let access_index = vars.local_wires[self.wire_access_index(copy)];\n            let mut list_items = (0..self.vec_size())\n                .map(|i| vars.local_wires[self.wire_list_item(i, copy)])\n                .collect::<Vec<_>>();\n            let claimed_element = vars.local_wires[self.wire_claimed_element(copy)];\n            let bits = (0..self.bits)\n                .map(|i| vars.local_wires[self.wire_bit(i, copy)])\n                .collect::<Vec<_>>();\n\n            // Assert that each bit wire value is indeed boolean.\n            for &b in &bits {\n                yield_constr.one')], ['C07'], 'R07.6'),
 ('r3_lookup_batch_lu_degree_off', [('plonky2/src/plonk/vanishing_poly.rs', '    let lu_degree = common_data.quotient_degree_factor - 1;\n    let num_sldc_polys = local_lookup_zs.len() - 1;\n    let lut_degree = num_lut_slots.div_ceil(num_sldc_polys);\n\n    let mut constraints = Vec::with_capacity(4 + common_data.luts.len() + 2 * num_sldc_polys);\n\n    // RE is the first polynomial stored.\n    let z_re = local_lookup_zs[0];\n    let next_z_re = next_lookup_zs[0];\n\n    // Partial Sums and LDCs are both stored in the remaining SLDC polynomials.\n    let z_x_lookup_sldcs = &local_lookup_zs[1..num_sldc_polys + 1];\n    let z_gx_lookup_sldcs = &next_lookup_zs[1..num_sldc_polys + 1];\n\n    let delta_challenge_a = F::Extension::from(', '    let lu_degree = common_data.quotient_degree_factor;\n    let num_sldc_polys = local_lookup_zs.len() - 1;\n    let lut_degree = num_lut_slots.div_ceil(num_sldc_polys);\n\n    let mut constraints = Vec::with_capacity(4 + common_data.luts.len() + 2 * num_sldc_polys);\n\n    // RE is the first polynomial stored.\n    let z_re = local_lookup_zs[0];\n    let next_z_re = next_lookup_zs[0];\n\n    // Partial Sums and LDCs are both stored in the remaining SLDC polynomials.\n    let z_x_lookup_sldcs = &local_lookup_zs[1..num_sldc_polys + 1];\n    let z_gx_lookup_sldcs = &next_lookup_zs[1..num_sldc_polys + 1];\n\n    let delta_challenge_a = F::Extension::from(')], ['C08'], 'R08.4'),
 ('r3_compressed_pi_hash_padded', [('plonky2/src/plonk/proof.rs', '    pub(crate) fn get_public_inputs_hash(\n        &self,\n    ) -> <<C as GenericConfig<D>>::InnerHasher as Hasher<F>>::Hash {\n        C::InnerHasher::hash_no_pad(&self.public_inputs)', '    pub(crate) fn get_public_inputs_hash(\n        &self,\n    ) -> <<C as GenericConfig<D>>::InnerHasher as Hasher<F>>::Hash {\n        C::InnerHasher::hash_pad(&self.public_inputs)')], ['C16'], 'R16.5'),
 ('r3_is_zero_on_raw_repr', [('field/src/goldilocks_field.rs', '        if self.is_zero() {\n            return None;\n        }', '        if self.0 == 0 {\n            return None;\n        }')], ['C14'], 'R14.4'),
]
BEHAVIOUR_PRESERVING += [
 ('bp_ctl_group_sorted_then_grouped', [('starky/src/cross_table_lookup.rs', '    let mut tables: Vec<usize> = vec![];\n    for looking_table in &looking_tables {\n        if !tables.contains(&looking_table.table) {\n            tables.push(looking_table.table);\n        }\n    }\n', '    let mut tables: Vec<usize> = looking_tables.iter().map(|t| t.table).collect();\n    tables.sort_unstable();\n    tables.dedup();\n')], ['C10'], None),
 ('bp_decompress_heights_as_loop', [('plonky2/src/fri/proof.rs', '        let heights = reduction_arity_bits\n            .iter()\n            .scan(height, |acc, &bits| {\n                *acc -= bits;\n                Some(*acc)\n            })\n            .collect::<Vec<_>>();', '        let mut heights = Vec::new();\n        let mut h = height;\n        for &bits in reduction_arity_bits.iter() {\n            h -= bits;\n            heights.push(h);\n        }')], ['C16'], None),
 ('bp_try_inverse_canonical_compare', [('field/src/goldilocks_field.rs', '        if self.is_zero() {\n            return None;\n        }', '        if self.to_canonical_u64() == 0 {\n            return None;\n        }')], ['C14'], None),
 ('bp_lut_degree_ceil_idiom', [('plonky2/src/plonk/vanishing_poly.rs', '    let lut_degree = num_lut_slots.div_ceil(num_sldc_polys);\n\n    let mut constraints = Vec::with_capacity(4 + common_data.luts.len() + 2 * num_sldc_polys);\n\n    // RE is the first polynomial stored.\n    let z_re = local_lookup_zs[0];\n    let next_z_re = next_lookup_zs[0];\n\n    // Partial Sums and LDCs are both stored in the remaining SLDC polynomials.\n    let z_x_lookup_sldcs = &local_lookup_zs[1..num_sldc_polys + 1];\n    let z_gx_lookup_sldcs = &next_lookup_zs[1..num_sldc_polys + 1];\n\n    let delta_challenge_a = F::Extension::from(', '    let lut_degree = (num_lut_slots + num_sldc_polys - 1) / num_sldc_polys;\n\n    let mut constraints = Vec::with_capacity(4 + common_data.luts.len() + 2 * num_sldc_polys);\n\n    // RE is the first polynomial stored.\n    let z_re = local_lookup_zs[0];\n    let next_z_re = next_lookup_zs[0];\n\n    // Partial Sums and LDCs are both stored in the remaining SLDC polynomials.\n    let z_x_lookup_sldcs = &local_lookup_zs[1..num_sldc_polys + 1];\n    let z_gx_lookup_sldcs = &next_lookup_zs[1..num_sldc_polys + 1];\n\n    let delta_challenge_a = F::Extension::from(')], ['C08'], None),
 ('bp_constants_sorted_then_zipped_via_local', [('plonky2/src/plonk/circuit_builder.rs', '            .sorted_by_key(|(c, _t)| c.to_canonical_u64())\n            .zip(self.constant_generators.clone())', '            .sorted_by_key(|(c, _t)| c.to_canonical_u64())\n            .collect::<Vec<_>>()\n            .into_iter()\n            .zip(self.constant_generators.clone())')], ['C19'], None),
]

# ---- refactoring variants: extract a helper / inline a helper around a table row
BEHAVIOUR_PRESERVING += [
 ('bp_extract_helper_around_pow_check', [('plonky2/src/fri/verifier.rs', '    fri_verify_proof_of_work(challenges.fri_pow_response, &params.config)?;\n\n    // Check that parameters are coherent.', '    check_grinding::<F, D>(challenges, params)?;\n\n    // Check that parameters are coherent.'),
                                          ('plonky2/src/fri/verifier.rs', 'pub fn verify_fri_proof<', 'fn check_grinding<F: RichField + Extendable<D>, const D: usize>(\n    challenges: &FriChallenges<F, D>,\n    params: &FriParams,\n) -> Result<()> {\n    fri_verify_proof_of_work(challenges.fri_pow_response, &params.config)\n}\n\npub fn verify_fri_proof<')], ['C05', 'C03'], None),
 ('bp_inline_pow_check', [('plonky2/src/fri/verifier.rs', '    fri_verify_proof_of_work(challenges.fri_pow_response, &params.config)?;\n\n    // Check that parameters are coherent.', '    ensure!(\n        challenges.fri_pow_response.to_canonical_u64().leading_zeros()\n            >= params.config.proof_of_work_bits + (64 - F::order().bits()) as u32,\n        "Invalid proof of work witness."\n    );\n\n    // Check that parameters are coherent.')], ['C05', 'C03'], None),
]

BEHAVIOUR_PRESERVING += [
 ('bp_validator_split_into_helper', [('plonky2/src/plonk/validate_shape.rs', '    ensure!(constants.len() == common_data.num_constants);\n    ensure!(plonk_sigmas.len() == config.num_routed_wires);\n    ensure!(wires.len() == config.num_wires);\n', '    check_first_openings(constants, plonk_sigmas, wires, common_data.num_constants, config.num_routed_wires, config.num_wires)?;\n'),
                                       ('plonky2/src/plonk/validate_shape.rs', 'fn validate_proof_shape<F, C, const D: usize>(', 'fn check_first_openings<T>(\n    constants: &[T],\n    plonk_sigmas: &[T],\n    wires: &[T],\n    num_constants: usize,\n    num_routed_wires: usize,\n    num_wires: usize,\n) -> anyhow::Result<()> {\n    ensure!(constants.len() == num_constants);\n    ensure!(plonk_sigmas.len() == num_routed_wires);\n    ensure!(wires.len() == num_wires);\n    Ok(())\n}\n\nfn validate_proof_shape<F, C, const D: usize>(')], ['C18', 'C03', 'C17'], None),
 ('bp_circuit_final_poly_connect_in_helper', [('plonky2/src/fri/recursive_verifier.rs', '        self.connect_extension(eval, old_eval);\n    }\n', '        self.connect_final_eval(eval, old_eval);\n    }\n\n    fn connect_final_eval(&mut self, eval: ExtensionTarget<D>, old_eval: ExtensionTarget<D>) {\n        self.connect_extension(eval, old_eval);\n    }\n')], ['C06', 'C11'], None),
]

# ---- renames: an anchor function, and a callee named by a table row
BEHAVIOUR_PRESERVING += [
 ('bp_rename_callee_pow_check', [('plonky2/src/fri/verifier.rs', 'pub(crate) fn fri_verify_proof_of_work<F: RichField + Extendable<D>, const D: usize>(', 'pub(crate) fn check_grinding_response<F: RichField + Extendable<D>, const D: usize>('),
                                  ('plonky2/src/fri/verifier.rs', '    fri_verify_proof_of_work(challenges.fri_pow_response, &params.config)?;', '    check_grinding_response(challenges.fri_pow_response, &params.config)?;'),
                                  ('plonky2/src/batch_fri/verifier.rs', 'fri_verify_proof_of_work', 'check_grinding_response'),
                                  ('plonky2/src/batch_fri/verifier.rs', 'fri_verify_proof_of_work', 'check_grinding_response')], ['C05', 'C03'], None),
 ('bp_rename_anchor_validate_shape', [('plonky2/src/fri/validate_shape.rs', 'pub(crate) fn validate_batch_fri_proof_shape<F, C, const D: usize>(', 'pub(crate) fn validate_batched_fri_shape<F, C, const D: usize>('),
                                       ('plonky2/src/fri/validate_shape.rs', '    validate_batch_fri_proof_shape::<F, C, D>(proof, &[instance.clone()], params)', '    validate_batched_fri_shape::<F, C, D>(proof, &[instance.clone()], params)'),
                                       ('plonky2/src/batch_fri/verifier.rs', 'validate_batch_fri_proof_shape', 'validate_batched_fri_shape'),
                                       ('plonky2/src/batch_fri/verifier.rs', 'validate_batch_fri_proof_shape', 'validate_batched_fri_shape')], ['C05', 'C18', 'C03'], None),
]

# ---- symbolic constraint count / accessor ranges
M += [
 ('r5_declared_count_too_small', [('plonky2/src/gates/arithmetic_base.rs', '    fn num_constraints(&self) -> usize {\n        self.num_ops\n    }', '    fn num_constraints(&self) -> usize {\n        self.num_ops - 1\n    }')], ['C07'], 'R07.3'),
 ('r5_poseidon_outputs_rate_only', [('plonky2/src/gates/poseidon.rs', '        for i in 0..SPONGE_WIDTH {\n            constraints.push(state[i] - vars.local_wires[Self::wire_output(i)]);', '        for i in 0..8 {\n            constraints.push(state[i] - vars.local_wires[Self::wire_output(i)]);')], ['C07'], 'R07.'),
]
BEHAVIOUR_PRESERVING += [
 ('bp_arithmetic_eval_as_iterator', [('plonky2/src/gates/arithmetic_base.rs', '        let mut constraints = Vec::with_capacity(self.num_ops);\n        for i in 0..self.num_ops {\n            let multiplicand_0 = vars.local_wires[Self::wire_ith_multiplicand_0(i)];\n            let multiplicand_1 = vars.local_wires[Self::wire_ith_multiplicand_1(i)];\n            let addend = vars.local_wires[Self::wire_ith_addend(i)];\n            let output = vars.local_wires[Self::wire_ith_output(i)];\n            let computed_output = multiplicand_0 * multiplicand_1 * const_0 + addend * const_1;\n\n            constraints.push(output - computed_output);\n        }\n\n        constraints\n    }\n\n    fn eval_unfiltered_base_one(', '        (0..self.num_ops)\n            .map(|i| {\n                let multiplicand_0 = vars.local_wires[Self::wire_ith_multiplicand_0(i)];\n                let multiplicand_1 = vars.local_wires[Self::wire_ith_multiplicand_1(i)];\n                let addend = vars.local_wires[Self::wire_ith_addend(i)];\n                let output = vars.local_wires[Self::wire_ith_output(i)];\n                let computed_output = multiplicand_0 * multiplicand_1 * const_0 + addend * const_1;\n                output - computed_output\n            })\n            .collect()\n    }\n\n    fn eval_unfiltered_base_one(')], ['C07', 'C02'], None),
]

M += [
 ('r6_lut_first_row_floor', [('plonky2/src/gates/lookup_table.rs', '        let first_row = self.last_lut_row + self.lut.len().div_ceil(self.num_slots) - 1;', '        let first_row = self.last_lut_row + self.lut.len() / self.num_slots;')], ['C08'], 'R08.11'),
 ('r6_read_lut_reader_only_bound', [('plonky2/src/util/serialization/mod.rs', '        let length = self.read_usize()?;\n        let mut lut = Vec::with_capacity(length);', '        let length = self.read_usize()?;\n        if length > u16::MAX as usize {\n            return Err(IoError);\n        }\n        let mut lut = Vec::with_capacity(length);')], ['C17'], 'R17.8'),
]
BEHAVIOUR_PRESERVING += [
 ('bp_lut_first_row_other_idiom', [('plonky2/src/gates/lookup_table.rs', '        let first_row = self.last_lut_row + self.lut.len().div_ceil(self.num_slots) - 1;', '        let rows_above_last = (self.lut.len() - 1) / self.num_slots;\n        let first_row = self.last_lut_row + rows_above_last;')], ['C08'], None),
 ('bp_lut_rows_div_ceil', [('plonky2/src/gadgets/lookup.rs', '                let num_lut_rows = (self.get_luts_idx_length(lut_index) - 1) / num_lut_entries + 1;', '                let num_lut_rows = self.get_luts_idx_length(lut_index).div_ceil(num_lut_entries);')], ['C08'], None),
 ('bp_read_lut_empty_shortcut', [('plonky2/src/util/serialization/mod.rs', '        let length = self.read_usize()?;\n        let mut lut = Vec::with_capacity(length);', '        let length = self.read_usize()?;\n        if length == 0 {\n            return Ok(Vec::new());\n        }\n        let mut lut = Vec::with_capacity(length);')], ['C17', 'C18'], None),
]

M += [
 ('r6_stark_next_step_degree_factor', [('starky/src/prover.rs', '    let next_step = 1 << quotient_degree_bits;', '    let next_step = stark.quotient_degree_factor();')], ['C09'], 'R09.13'),
 ('r6_plonk_next_step_rate_bits', [('plonky2/src/plonk/prover.rs', '    let next_step = 1 << quotient_degree_bits;', '    let next_step = 1 << common_data.config.fri_config.rate_bits;')], ['C01'], 'R01.6'),
 ('r6_special_case_forgets_coefficient', [('plonky2/src/gadgets/arithmetic.rs', '            if let Some(x) = mul_1_const {\n                if (x * const_0).is_one() {', '            if let Some(x) = mul_1_const {\n                if x.is_one() {')], ['C01'], 'R01.3'),
 ('r6_luts_after_gates', [('plonky2/src/util/serialization/mod.rs', '            num_lookup_selectors,\n            luts,\n        };', '            num_lookup_selectors,\n            luts: vec![],\n        };')], ['C17'], 'R17.9'),
 ('r6_read_fri_params_relation', [('plonky2/src/util/serialization/mod.rs', '        let hiding = self.read_bool()?;\n\n        Ok(FriParams {', '        let hiding = self.read_bool()?;\n\n        if reduction_arity_bits.iter().sum::<usize>() >= degree_bits {\n            return Err(IoError);\n        }\n\n        Ok(FriParams {')], ['C17'], 'R17.8'),
 ('r6_gate_sort_key_prefix', [('plonky2/src/plonk/circuit_builder.rs', '        gates.sort_unstable_by_key(|g| (g.0.degree(), g.0.id()));', '        gates.sort_by_cached_key(|g| {\n            let mut id = g.0.id();\n            id.truncate(32);\n            (g.0.degree(), id)\n        });')], ['C19'], 'R19.3'),
 ('r6_packed_stride_guard_removed', [('starky/src/prover.rs', '    if (degree << quotient_degree_bits) < P::WIDTH {', '    if false {')], ['C19'], 'R19.6'),
]
BEHAVIOUR_PRESERVING += [
 ('bp_stark_next_step_size_over_degree', [('starky/src/prover.rs', '    let next_step = 1 << quotient_degree_bits;', '    let next_step = (degree << quotient_degree_bits) / degree;')], ['C09'], None),
 ('bp_special_case_map_or', [('plonky2/src/gadgets/arithmetic.rs', '            if let Some(x) = mul_1_const {\n                if (x * const_0).is_one() {\n                    return Some(multiplicand_0);\n                }\n            }', '            if mul_1_const.map_or(false, |x| (x * const_0).is_one()) {\n                return Some(multiplicand_0);\n            }')], ['C01'], None),
 ('bp_gates_placeholder_vec_new', [('plonky2/src/util/serialization/mod.rs', '            gates: vec![],\n            selectors_info,', '            gates: Vec::new(),\n            selectors_info,')], ['C17'], None),
 ('bp_gate_sort_by_cmp', [('plonky2/src/plonk/circuit_builder.rs', '        gates.sort_unstable_by_key(|g| (g.0.degree(), g.0.id()));', '        gates.sort_unstable_by(|a, b| (a.0.degree(), a.0.id()).cmp(&(b.0.degree(), b.0.id())));')], ['C19'], None),
 ('bp_packed_stride_guard_flipped', [('starky/src/prover.rs', '    if (degree << quotient_degree_bits) < P::WIDTH {', '    if P::WIDTH > (degree << quotient_degree_bits) {')], ['C19'], None),
]

BEHAVIOUR_PRESERVING += [
 ('bp_schedule_guard_rearranged', [('plonky2/src/fri/reduction_strategies.rs', '                    && degree_bits + rate_bits - arity_bits >= cap_height', '                    && degree_bits + rate_bits >= cap_height + arity_bits')], ['C05'], None),
 ('bp_stark_lde_guard_flipped', [('starky/src/verifier.rs', '        lde_bits >= config.fri_config.rate_bits && lde_bits <= F::TWO_ADICITY,', '        config.fri_config.rate_bits <= lde_bits && lde_bits <= F::TWO_ADICITY,')], ['C18'], None),
 ('bp_batch_mix_commuted', [('plonky2/src/batch_fri/verifier.rs', '            old_eval = old_eval * challenges.fri_betas[i] + eval;', '            old_eval = eval + challenges.fri_betas[i] * old_eval;')], ['C05'], None),
 ('bp_helper_one_pair_commuted', [('starky/src/lookup.rs', '                    consumer.constraint(combin * h - f0);', '                    consumer.constraint(h * combin - f0);')], ['C10'], None),
 ('bp_partition_map_renamed', [('plonky2/src/plonk/permutation_argument.rs', '        let mut partition = HashMap::<_, Vec<_>>::new();', '        let mut classes = HashMap::<_, Vec<_>>::new();'), ('plonky2/src/plonk/permutation_argument.rs', '                partition.entry(x_parent).or_default().push(w);', '                classes.entry(x_parent).or_default().push(w);'), ('plonky2/src/plonk/permutation_argument.rs', '        let partition = partition.into_values().collect();', '        let partition = classes.into_values().collect();')], ['C02'], None),
]
M += [
 ('r7_schedule_guard_wrong_operand', [('plonky2/src/fri/reduction_strategies.rs', '                    && degree_bits + rate_bits - arity_bits >= cap_height', '                    && degree_bits + rate_bits - cap_height >= cap_height')], ['C05'], 'R05.8'),
 ('r7_stark_lde_guard_wrong_operand', [('starky/src/verifier.rs', '        lde_bits >= config.fri_config.rate_bits && lde_bits <= F::TWO_ADICITY,', '        lde_bits >= config.fri_config.cap_height && lde_bits <= F::TWO_ADICITY,')], ['C18'], 'R18.9'),
 ('r7_self_connect', [('plonky2/src/hash/merkle_proofs.rs', '        self.connect_hashes(x.circuit_digest, y.circuit_digest);', '        self.connect_hashes(x.circuit_digest, x.circuit_digest);')], ['C02'], 'R02.11'),
]

BEHAVIOUR_PRESERVING += [
 ('bp_cyclic_connect_swapped_sides', [('plonky2/src/recursion/cyclic_recursion.rs', '            inner_cyclic_pis.circuit_digest,\n            verifier_data.circuit_digest,\n        );', '            verifier_data.circuit_digest,\n            inner_cyclic_pis.circuit_digest,\n        );')], ['C20'], None),
 ('bp_key_oracle_literal_false', [('plonky2/src/plonk/circuit_builder.rs', '                PlonkOracle::CONSTANTS_SIGMAS.blinding,\n                cap_height,', '                false,\n                cap_height,')], ['C19', 'C06'], None),
 ('bp_packed_read_commuted', [('plonky2/src/fri/oracle.rs', '            .map(|i| self.get_lde_values(index_start + i, step))', '            .map(|j| self.get_lde_values(j + index_start, step))')], ['C19'], None),
 ('bp_strategy_encoder_loop', [('plonky2/src/fri/reduction_strategies.rs', '            FriReductionStrategy::Fixed(reduction_arity_bits) => core::iter::once(F::ZERO)\n                .chain(\n                    reduction_arity_bits\n                        .iter()\n                        .map(|&x| F::from_canonical_usize(x)),\n                )\n                .collect(),', '            FriReductionStrategy::Fixed(reduction_arity_bits) => {\n                let mut out = vec![F::ZERO];\n                for &x in reduction_arity_bits {\n                    out.push(F::from_canonical_usize(x));\n                }\n                out\n            }')], ['C04'], None),
 ('bp_keccak_permute_iter_state', [('plonky2/src/hash/keccak.rs', '        for i in 0..SPONGE_WIDTH {\n            state_bytes[i * size_of::<u64>()..(i + 1) * size_of::<u64>()]\n                .copy_from_slice(&self.state[i].to_canonical_u64().to_le_bytes());\n        }', '        for (i, x) in self.state.iter().enumerate() {\n            state_bytes[i * size_of::<u64>()..(i + 1) * size_of::<u64>()]\n                .copy_from_slice(&x.to_canonical_u64().to_le_bytes());\n        }')], ['C13', 'C04'], None),
]

BEHAVIOUR_PRESERVING += [
 ('bp_circuit_pow_zero_shortcut', [('plonky2/src/fri/recursive_verifier.rs', '        self.assert_leading_zeros(\n            fri_pow_response,\n            config.proof_of_work_bits + (64 - F::order().bits()) as u32,\n        );', '        let min_leading_zeros = config.proof_of_work_bits + (64 - F::order().bits()) as u32;\n        if min_leading_zeros < 1 {\n            return;\n        }\n        self.assert_leading_zeros(fri_pow_response, min_leading_zeros);')], ['C06'], None),
]
M += [
 ('r8_circuit_pow_one_bit_exempt', [('plonky2/src/fri/recursive_verifier.rs', '        self.assert_leading_zeros(\n            fri_pow_response,\n            config.proof_of_work_bits + (64 - F::order().bits()) as u32,\n        );', '        let min_leading_zeros = config.proof_of_work_bits + (64 - F::order().bits()) as u32;\n        if min_leading_zeros <= 1 {\n            return;\n        }\n        self.assert_leading_zeros(fri_pow_response, min_leading_zeros);')], ['C06'], 'R06.10'),
]

def run(name, subs, checks):
    args = [os.path.join(V, 'selftest', 'mutrun.py')]
    for f, o, n in subs:
        args += ['--sub', f, o, n]
    args += ['--'] + checks
    r = subprocess.run(args, stdout=subprocess.PIPE, stderr=subprocess.STDOUT, text=True)
    return r.returncode, r.stdout
if __name__ == '__main__':
    want = set(sys.argv[1:])
    res = {}
    for name, subs, checks, exp in M + BEHAVIOUR_PRESERVING:
        if want and name not in want:
            continue
        rc, out = run(name, subs, checks)
        viol = [l for l in out.splitlines() if ' rule R' in l]
        if exp is None:
            verdict = 'silent(ok)' if rc == 0 else 'FALSE-ALARM'
        else:
            verdict = 'caught' if any(exp in l for l in viol) else ('caught-other' if rc == 1 else 'MISSED')
        if 'substitution source not found' in out or 'failed' in out.lower() and 'cargo check' in out:
            verdict = 'SETUP-ERROR: ' + out[-300:]
        print('%-40s %s   %s' % (name, verdict, (viol[0][:160] if viol else '')), flush=True)
        res[name] = verdict
    json.dump(res, open('/tmp/mutants_result.json', 'w'), indent=1)
