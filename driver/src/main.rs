// pv-driver: rustc_private fact extractor for the plonky2 workspace.
// Injected as RUSTC_WORKSPACE_WRAPPER under `cargo +nightly check`; for every workspace
// crate it writes ONE json file (one write) into $PV_FACTS_DIR with
//   items  : ADTs (fields, types), impls (self type, trait, assoc items), traits
//   fns    : every body owner (fn, assoc fn, const, static) as a typed, resolved HIR tree
//            (closures nested in place; for/while/? desugarings folded back)
//   mir    : per body (incl. closures) resolved call edges, assert terminators, CFG successors
#![feature(rustc_private)]
#![allow(clippy::all)]

extern crate rustc_abi;
extern crate rustc_ast;
extern crate rustc_data_structures;
extern crate rustc_driver;
extern crate rustc_hir;
extern crate rustc_interface;
extern crate rustc_middle;
extern crate rustc_session;
extern crate rustc_span;

use std::collections::HashMap;
use std::fmt::Write as _;

use rustc_driver::{Callbacks, Compilation};
use rustc_hir as hir;
use rustc_hir::def::{DefKind, Res};
use rustc_hir::def_id::{DefId, LocalDefId};
use rustc_interface::interface::Compiler;
use rustc_middle::mir;
use rustc_middle::ty::print::{with_crate_prefix, with_no_trimmed_paths};
use rustc_middle::ty::{self, TyCtxt};
use rustc_span::{ExpnKind, Span};

const CRATES: &[&str] = &["plonky2", "starky", "plonky2_field", "plonky2_util", "plonky2_maybe_rayon", "pv_control"];

fn js(s: &str) -> String {
    let mut o = String::with_capacity(s.len() + 2);
    o.push('"');
    for c in s.chars() {
        match c {
            '"' => o.push_str("\\\""),
            '\\' => o.push_str("\\\\"),
            '\n' => o.push_str("\\n"),
            '\r' => o.push_str("\\r"),
            '\t' => o.push_str("\\t"),
            c if (c as u32) < 0x20 => {
                let _ = write!(o, "\\u{:04x}", c as u32);
            }
            c => o.push(c),
        }
    }
    o.push('"');
    o
}

struct Cx<'tcx> {
    tcx: TyCtxt<'tcx>,
    types: Vec<String>,
    type_ix: HashMap<String, usize>,
    cprefix: String,
}

impl<'tcx> Cx<'tcx> {
    fn ty_ix(&mut self, t: ty::Ty<'tcx>) -> usize {
        let s = t.to_string().replace("crate::", &self.cprefix);
        if let Some(&i) = self.type_ix.get(&s) {
            return i;
        }
        let i = self.types.len();
        self.types.push(s.clone());
        self.type_ix.insert(s, i);
        i
    }

    fn span(&self, sp: Span) -> String {
        let sp = sp.source_callsite();
        let sm = self.tcx.sess.source_map();
        let lo = sm.lookup_char_pos(sp.lo());
        let f = match &lo.file.name {
            rustc_span::FileName::Real(r) => match r.local_path() {
                Some(p) => p.to_string_lossy().to_string(),
                None => format!("{:?}", r),
            },
            other => format!("{:?}", other),
        };
        format!("{}:{}:{}", f, lo.line, lo.col.0 + 1)
    }

    fn macros(&self, sp: Span) -> Vec<String> {
        let mut v = vec![];
        if !sp.from_expansion() {
            return v;
        }
        for d in sp.macro_backtrace() {
            match d.kind {
                ExpnKind::Macro(_, name) => {
                    let n = name.to_string();
                    if v.last() != Some(&n) {
                        v.push(n)
                    }
                }
                ExpnKind::Desugaring(k) => v.push(format!("~{:?}", k)),
                ExpnKind::AstPass(_) => v.push("~ast".to_string()),
                ExpnKind::Root => {}
            }
        }
        v
    }

    fn defpath(&self, d: DefId) -> String {
        self.tcx.def_path_str(d).replace("crate::", &self.cprefix)
    }

    fn common(&mut self, out: &mut String, e: &hir::Expr<'tcx>, tr: &'tcx ty::TypeckResults<'tcx>) {
        let _ = write!(out, ",\"s\":{}", js(&self.span(e.span)));
        if let Some(t) = tr.expr_ty_opt(e) {
            let i = self.ty_ix(t);
            let _ = write!(out, ",\"t\":{}", i);
        }
        if let Some(t) = tr.expr_ty_adjusted_opt(e) {
            if Some(t) != tr.expr_ty_opt(e) {
                let i = self.ty_ix(t);
                let _ = write!(out, ",\"ta\":{}", i);
            }
        }
        let m = self.macros(e.span);
        if !m.is_empty() {
            out.push_str(",\"m\":[");
            for (i, n) in m.iter().enumerate() {
                if i > 0 {
                    out.push(',');
                }
                out.push_str(&js(n));
            }
            out.push(']');
        }
    }

    fn resolve(&self, owner: LocalDefId, did: DefId, args: ty::GenericArgsRef<'tcx>) -> Option<DefId> {
        let env = ty::TypingEnv::post_analysis(self.tcx, owner.to_def_id());
        // only attempt when did is a trait item
        if self.tcx.trait_of_assoc(did).is_none() {
            return None;
        }
        match ty::Instance::try_resolve(self.tcx, env, did, args) {
            Ok(Some(inst)) => {
                let r = inst.def_id();
                if r != did {
                    Some(r)
                } else {
                    None
                }
            }
            _ => None,
        }
    }

    fn qpath_def(&mut self, out: &mut String, owner: LocalDefId, qp: &hir::QPath<'tcx>, hid: hir::HirId, tr: &'tcx ty::TypeckResults<'tcx>) {
        let res = tr.qpath_res(qp, hid);
        match res {
            Res::Local(h) => {
                let name = self.tcx.hir_name(h);
                let _ = write!(out, "\"k\":\"Local\",\"id\":{},\"n\":{}", h.local_id.as_u32(), js(name.as_str()));
            }
            Res::Def(kind, did) => {
                let _ = write!(out, "\"k\":\"Def\",\"dk\":{},\"d\":{}", js(&format!("{:?}", kind)), js(&self.defpath(did)));
                let args = tr.node_args(hid);
                if !args.is_empty() {
                    let _ = write!(out, ",\"ga\":{}", js(&format!("{:?}", args)));
                    if matches!(kind, DefKind::AssocFn | DefKind::AssocConst { .. }) {
                        if let Some(r) = self.resolve(owner, did, args) {
                            let _ = write!(out, ",\"rd\":{}", js(&self.defpath(r)));
                        }
                    }
                }
            }
            Res::SelfCtor(d) => {
                let _ = write!(out, "\"k\":\"Def\",\"dk\":\"SelfCtor\",\"d\":{}", js(&self.defpath(d)));
            }
            other => {
                let _ = write!(out, "\"k\":\"Def\",\"dk\":\"Other\",\"d\":{}", js(&format!("{:?}", other)));
            }
        }
    }

    fn pat(&mut self, out: &mut String, owner: LocalDefId, p: &hir::Pat<'tcx>, tr: &'tcx ty::TypeckResults<'tcx>) {
        use hir::PatKind::*;
        out.push('{');
        match p.kind {
            Wild | Missing => out.push_str("\"k\":\"Wild\""),
            Binding(mode, hid, ident, sub) => {
                let _ = write!(
                    out,
                    "\"k\":\"Bind\",\"id\":{},\"n\":{},\"mut\":{},\"ref\":{}",
                    hid.local_id.as_u32(),
                    js(ident.as_str()),
                    matches!(mode.1, hir::Mutability::Mut),
                    !matches!(mode.0, hir::ByRef::No)
                );
                if let Some(s) = sub {
                    out.push_str(",\"sub\":");
                    self.pat(out, owner, s, tr);
                }
            }
            Struct(ref qp, fields, rest) => {
                let res = tr.qpath_res(qp, p.hir_id);
                let d = match res {
                    Res::Def(_, d) => self.defpath(d),
                    Res::SelfTyAlias { alias_to, .. } => self.defpath(alias_to),
                    o => format!("{:?}", o),
                };
                let _ = write!(out, "\"k\":\"PStruct\",\"d\":{},\"rest\":{},\"f\":[", js(&d), rest.is_some());
                for (i, f) in fields.iter().enumerate() {
                    if i > 0 {
                        out.push(',');
                    }
                    let _ = write!(out, "[{},", js(f.ident.as_str()));
                    self.pat(out, owner, f.pat, tr);
                    out.push(']');
                }
                out.push(']');
            }
            TupleStruct(ref qp, pats, dd) => {
                let res = tr.qpath_res(qp, p.hir_id);
                let d = match res {
                    Res::Def(_, d) => self.defpath(d),
                    o => format!("{:?}", o),
                };
                let _ = write!(out, "\"k\":\"PTupleStruct\",\"d\":{},\"dd\":{},\"a\":[", js(&d), dd.as_opt_usize().map(|x| x as i64).unwrap_or(-1));
                for (i, q) in pats.iter().enumerate() {
                    if i > 0 {
                        out.push(',');
                    }
                    self.pat(out, owner, q, tr);
                }
                out.push(']');
            }
            Tuple(pats, dd) => {
                let _ = write!(out, "\"k\":\"PTuple\",\"dd\":{},\"a\":[", dd.as_opt_usize().map(|x| x as i64).unwrap_or(-1));
                for (i, q) in pats.iter().enumerate() {
                    if i > 0 {
                        out.push(',');
                    }
                    self.pat(out, owner, q, tr);
                }
                out.push(']');
            }
            Or(pats) => {
                out.push_str("\"k\":\"POr\",\"a\":[");
                for (i, q) in pats.iter().enumerate() {
                    if i > 0 {
                        out.push(',');
                    }
                    self.pat(out, owner, q, tr);
                }
                out.push(']');
            }
            Box(q) | Deref(q) | Ref(q, _, _) => {
                out.push_str("\"k\":\"PRef\",\"p\":");
                self.pat(out, owner, q, tr);
            }
            Guard(q, _) => {
                out.push_str("\"k\":\"PRef\",\"p\":");
                self.pat(out, owner, q, tr);
            }
            Expr(pe) => match pe.kind {
                hir::PatExprKind::Lit { lit, negated } => {
                    let _ = write!(out, "\"k\":\"PLit\",\"v\":{}", js(&format!("{}{:?}", if negated { "-" } else { "" }, lit.node)));
                }
                hir::PatExprKind::Path(ref qp) => {
                    let res = tr.qpath_res(qp, pe.hir_id);
                    let d = match res {
                        Res::Def(_, d) => self.defpath(d),
                        o => format!("{:?}", o),
                    };
                    let _ = write!(out, "\"k\":\"PPath\",\"d\":{}", js(&d));
                }
            },
            Range(..) => out.push_str("\"k\":\"PRange\""),
            Slice(b, m, a) => {
                out.push_str("\"k\":\"PSlice\",\"b\":[");
                for (i, q) in b.iter().enumerate() {
                    if i > 0 {
                        out.push(',');
                    }
                    self.pat(out, owner, q, tr);
                }
                out.push_str("],\"a\":[");
                for (i, q) in a.iter().enumerate() {
                    if i > 0 {
                        out.push(',');
                    }
                    self.pat(out, owner, q, tr);
                }
                out.push(']');
                if let Some(m) = m {
                    out.push_str(",\"m\":");
                    self.pat(out, owner, m, tr);
                }
            }
            Never | Err(_) => out.push_str("\"k\":\"Wild\""),
        }
        if let Some(t) = tr.node_type_opt(p.hir_id) {
            let i = self.ty_ix(t);
            let _ = write!(out, ",\"t\":{}", i);
        }
        out.push('}');
    }

    fn block(&mut self, out: &mut String, owner: LocalDefId, b: &hir::Block<'tcx>, tr: &'tcx ty::TypeckResults<'tcx>) {
        let uns = !matches!(b.rules, hir::BlockCheckMode::DefaultBlock);
        let _ = write!(out, "{{\"k\":\"Block\",\"unsafe\":{},\"s\":{},\"st\":[", uns, js(&self.span(b.span)));
        let mut first = true;
        for st in b.stmts {
            match st.kind {
                hir::StmtKind::Let(l) => {
                    if !first {
                        out.push(',');
                    }
                    first = false;
                    out.push_str("{\"k\":\"Let\",\"p\":");
                    self.pat(out, owner, l.pat, tr);
                    let _ = write!(out, ",\"s\":{}", js(&self.span(l.span)));
                    if let Some(i) = l.init {
                        out.push_str(",\"i\":");
                        self.expr(out, owner, i, tr);
                    }
                    if let Some(e) = l.els {
                        out.push_str(",\"els\":");
                        self.block(out, owner, e, tr);
                    }
                    out.push('}');
                }
                hir::StmtKind::Item(_) => {}
                hir::StmtKind::Expr(e) | hir::StmtKind::Semi(e) => {
                    if !first {
                        out.push(',');
                    }
                    first = false;
                    self.expr(out, owner, e, tr);
                }
            }
        }
        out.push(']');
        if let Some(e) = b.expr {
            out.push_str(",\"e\":");
            self.expr(out, owner, e, tr);
        }
        out.push('}');
    }

    fn exprs(&mut self, out: &mut String, owner: LocalDefId, es: &[hir::Expr<'tcx>], tr: &'tcx ty::TypeckResults<'tcx>) {
        out.push('[');
        for (i, e) in es.iter().enumerate() {
            if i > 0 {
                out.push(',');
            }
            self.expr(out, owner, e, tr);
        }
        out.push(']');
    }

    fn is_lang_call(&self, e: &hir::Expr<'tcx>, tr: &'tcx ty::TypeckResults<'tcx>, item: hir::LangItem) -> Option<&'tcx hir::Expr<'tcx>> {
        if let hir::ExprKind::Call(f, args) = e.kind {
            if let hir::ExprKind::Path(ref qp) = f.kind {
                if let Res::Def(_, d) = tr.qpath_res(qp, f.hir_id) {
                    if self.tcx.lang_items().get(item) == Some(d) && args.len() == 1 {
                        // SAFETY of lifetimes: args lives as long as 'tcx hir arena
                        let a: &hir::Expr<'tcx> = &args[0];
                        let a: &'tcx hir::Expr<'tcx> = unsafe { &*(a as *const _) };
                        return Some(a);
                    }
                }
            }
        }
        None
    }

    fn expr(&mut self, out: &mut String, owner: LocalDefId, e: &hir::Expr<'tcx>, tr: &'tcx ty::TypeckResults<'tcx>) {
        use hir::ExprKind::*;
        // transparent wrappers
        match e.kind {
            DropTemps(i) | Use(i, _) | Type(i, _) => {
                return self.expr(out, owner, i, tr);
            }
            Block(b, _) => {
                return self.block(out, owner, b, tr);
            }
            _ => {}
        }
        out.push('{');
        match e.kind {
            ConstBlock(ref cb) => {
                let body = self.tcx.hir_body(cb.body);
                out.push_str("\"k\":\"ConstBlock\",\"b\":");
                let trc = self.tcx.typeck(cb.def_id);
                self.expr(out, owner, body.value, trc);
            }
            Array(es) => {
                out.push_str("\"k\":\"Array\",\"a\":");
                self.exprs(out, owner, es, tr);
            }
            Tup(es) => {
                out.push_str("\"k\":\"Tup\",\"a\":");
                self.exprs(out, owner, es, tr);
            }
            Call(f, args) => {
                out.push_str("\"k\":\"Call\",\"f\":");
                self.expr(out, owner, f, tr);
                out.push_str(",\"a\":");
                self.exprs(out, owner, args, tr);
            }
            MethodCall(seg, recv, args, _) => {
                let _ = write!(out, "\"k\":\"MCall\",\"n\":{}", js(seg.ident.as_str()));
                if let Some(did) = tr.type_dependent_def_id(e.hir_id) {
                    let _ = write!(out, ",\"d\":{}", js(&self.defpath(did)));
                    let ga = tr.node_args(e.hir_id);
                    if !ga.is_empty() {
                        let _ = write!(out, ",\"ga\":{}", js(&format!("{:?}", ga)));
                        if let Some(r) = self.resolve(owner, did, ga) {
                            let _ = write!(out, ",\"rd\":{}", js(&self.defpath(r)));
                        }
                    }
                }
                out.push_str(",\"r\":");
                self.expr(out, owner, recv, tr);
                out.push_str(",\"a\":");
                self.exprs(out, owner, args, tr);
            }
            Binary(op, l, r) => {
                let _ = write!(out, "\"k\":\"Bin\",\"op\":{}", js(&format!("{:?}", op.node)));
                if let Some(did) = tr.type_dependent_def_id(e.hir_id) {
                    let _ = write!(out, ",\"od\":{}", js(&self.defpath(did)));
                }
                out.push_str(",\"l\":");
                self.expr(out, owner, l, tr);
                out.push_str(",\"r\":");
                self.expr(out, owner, r, tr);
            }
            Unary(op, i) => {
                let _ = write!(out, "\"k\":\"Un\",\"op\":{}", js(&format!("{:?}", op)));
                if let Some(did) = tr.type_dependent_def_id(e.hir_id) {
                    let _ = write!(out, ",\"od\":{}", js(&self.defpath(did)));
                }
                out.push_str(",\"e\":");
                self.expr(out, owner, i, tr);
            }
            Lit(l) => {
                use rustc_ast::LitKind;
                let v = match l.node {
                    LitKind::Int(n, _) => format!("{}", n.get()),
                    LitKind::Bool(b) => format!("{}", b),
                    LitKind::Str(s, _) => js(s.as_str()),
                    LitKind::Char(c) => js(&c.to_string()),
                    ref o => js(&format!("{:?}", o)),
                };
                let kind = match l.node {
                    LitKind::Int(..) => "int",
                    LitKind::Bool(..) => "bool",
                    LitKind::Str(..) => "str",
                    _ => "other",
                };
                let _ = write!(out, "\"k\":\"Lit\",\"lk\":\"{}\",\"v\":{}", kind, v);
            }
            Cast(i, _) => {
                out.push_str("\"k\":\"Cast\",\"e\":");
                self.expr(out, owner, i, tr);
            }
            Let(l) => {
                out.push_str("\"k\":\"LetE\",\"p\":");
                self.pat(out, owner, l.pat, tr);
                out.push_str(",\"i\":");
                self.expr(out, owner, l.init, tr);
            }
            If(c, t, el) => {
                out.push_str("\"k\":\"If\",\"c\":");
                self.expr(out, owner, c, tr);
                out.push_str(",\"th\":");
                self.expr(out, owner, t, tr);
                if let Some(el) = el {
                    out.push_str(",\"el\":");
                    self.expr(out, owner, el, tr);
                }
            }
            Loop(b, _, src, _) => {
                let mut done = false;
                if matches!(src, hir::LoopSource::While) {
                    if let Some(be) = b.expr {
                        if let If(c, t, _) = be.kind {
                            out.push_str("\"k\":\"While\",\"c\":");
                            self.expr(out, owner, c, tr);
                            out.push_str(",\"b\":");
                            self.expr(out, owner, t, tr);
                            done = true;
                        }
                    }
                }
                if !done {
                    out.push_str("\"k\":\"Loop\",\"b\":");
                    self.block(out, owner, b, tr);
                }
            }
            Match(scrut, arms, src) => {
                let mut done = false;
                match src {
                    hir::MatchSource::ForLoopDesugar => {
                        // match into_iter(ITER) { mut iter => loop { match next(&mut iter) { None => break, Some(PAT) => BODY } } }
                        if let Some(iter) = self.is_lang_call(scrut, tr, hir::LangItem::IntoIterIntoIter) {
                            if arms.len() == 1 {
                                if let Loop(lb, _, _, _) = arms[0].body.kind {
                                    let inner = lb.expr.or_else(|| {
                                        lb.stmts.first().and_then(|s| match s.kind {
                                            hir::StmtKind::Expr(e) | hir::StmtKind::Semi(e) => Some(e),
                                            _ => None,
                                        })
                                    });
                                    if let Some(inner) = inner {
                                        if let Match(_, iarms, _) = inner.kind {
                                            if iarms.len() == 2 {
                                                let some = &iarms[1];
                                                let sub = match some.pat.kind {
                                                    hir::PatKind::Struct(_, fs, _) if fs.len() == 1 => Some(fs[0].pat),
                                                    hir::PatKind::TupleStruct(_, ps, _) if ps.len() == 1 => Some(&ps[0]),
                                                    _ => None,
                                                };
                                                if let Some(sub) = sub {
                                                    out.push_str("\"k\":\"For\",\"p\":");
                                                    self.pat(out, owner, sub, tr);
                                                    out.push_str(",\"it\":");
                                                    self.expr(out, owner, iter, tr);
                                                    out.push_str(",\"b\":");
                                                    self.expr(out, owner, some.body, tr);
                                                    done = true;
                                                }
                                            }
                                        }
                                    }
                                }
                            }
                        }
                    }
                    hir::MatchSource::TryDesugar(_) => {
                        if let Some(inner) = self.is_lang_call(scrut, tr, hir::LangItem::TryTraitBranch) {
                            out.push_str("\"k\":\"Try\",\"e\":");
                            self.expr(out, owner, inner, tr);
                            done = true;
                        }
                    }
                    _ => {}
                }
                if !done {
                    out.push_str("\"k\":\"Match\",\"e\":");
                    self.expr(out, owner, scrut, tr);
                    out.push_str(",\"arms\":[");
                    for (i, a) in arms.iter().enumerate() {
                        if i > 0 {
                            out.push(',');
                        }
                        out.push_str("{\"p\":");
                        self.pat(out, owner, a.pat, tr);
                        if let Some(g) = a.guard {
                            out.push_str(",\"g\":");
                            self.expr(out, owner, g, tr);
                        }
                        out.push_str(",\"b\":");
                        self.expr(out, owner, a.body, tr);
                        out.push('}');
                    }
                    out.push(']');
                }
            }
            Closure(c) => {
                let body = self.tcx.hir_body(c.body);
                let _ = write!(out, "\"k\":\"Closure\",\"d\":{},\"p\":[", js(&self.defpath(c.def_id.to_def_id())));
                for (i, p) in body.params.iter().enumerate() {
                    if i > 0 {
                        out.push(',');
                    }
                    self.pat(out, owner, p.pat, tr);
                }
                out.push_str("],\"b\":");
                self.expr(out, owner, body.value, tr);
            }
            Assign(l, r, _) => {
                out.push_str("\"k\":\"Assign\",\"l\":");
                self.expr(out, owner, l, tr);
                out.push_str(",\"r\":");
                self.expr(out, owner, r, tr);
            }
            AssignOp(op, l, r) => {
                let _ = write!(out, "\"k\":\"AssignOp\",\"op\":{}", js(&format!("{:?}", op.node)));
                out.push_str(",\"l\":");
                self.expr(out, owner, l, tr);
                out.push_str(",\"r\":");
                self.expr(out, owner, r, tr);
            }
            Field(b, id) => {
                let _ = write!(out, "\"k\":\"Field\",\"n\":{},\"e\":", js(id.as_str()));
                self.expr(out, owner, b, tr);
            }
            Index(b, i, _) => {
                out.push_str("\"k\":\"Index\",\"e\":");
                self.expr(out, owner, b, tr);
                out.push_str(",\"i\":");
                self.expr(out, owner, i, tr);
            }
            Path(ref qp) => {
                self.qpath_def(out, owner, qp, e.hir_id, tr);
            }
            AddrOf(_, m, i) => {
                let _ = write!(out, "\"k\":\"Ref\",\"mut\":{},\"e\":", matches!(m, hir::Mutability::Mut));
                self.expr(out, owner, i, tr);
            }
            Break(_, v) => {
                out.push_str("\"k\":\"Break\"");
                if let Some(v) = v {
                    out.push_str(",\"e\":");
                    self.expr(out, owner, v, tr);
                }
            }
            Continue(_) => out.push_str("\"k\":\"Continue\""),
            Ret(v) => {
                out.push_str("\"k\":\"Ret\"");
                if let Some(v) = v {
                    out.push_str(",\"e\":");
                    self.expr(out, owner, v, tr);
                }
            }
            Struct(qp, fields, tail) => {
                let res = tr.qpath_res(qp, e.hir_id);
                let d = match res {
                    Res::Def(_, d) => self.defpath(d),
                    Res::SelfTyAlias { alias_to, .. } => format!("Self:{}", self.defpath(alias_to)),
                    o => format!("{:?}", o),
                };
                let _ = write!(out, "\"k\":\"Struct\",\"d\":{},\"f\":[", js(&d));
                for (i, f) in fields.iter().enumerate() {
                    if i > 0 {
                        out.push(',');
                    }
                    let _ = write!(out, "[{},", js(f.ident.as_str()));
                    self.expr(out, owner, f.expr, tr);
                    out.push(']');
                }
                out.push(']');
                match tail {
                    hir::StructTailExpr::Base(b) => {
                        out.push_str(",\"base\":");
                        self.expr(out, owner, b, tr);
                    }
                    hir::StructTailExpr::DefaultFields(_) => out.push_str(",\"base\":\"default\""),
                    _ => {}
                }
            }
            Repeat(v, _) => {
                out.push_str("\"k\":\"Repeat\",\"e\":");
                self.expr(out, owner, v, tr);
            }
            _ => {
                out.push_str("\"k\":\"Other\"");
            }
        }
        self.common(out, e, tr);
        out.push('}');
    }

    fn mir_facts(&mut self, out: &mut String, did: LocalDefId) {
        let tcx = self.tcx;
        let body: &mir::Body<'tcx> = tcx.optimized_mir(did);
        let env = ty::TypingEnv::post_analysis(tcx, did.to_def_id());
        let _ = write!(out, "{{\"d\":{},\"blocks\":[", js(&self.defpath(did.to_def_id())));
        let mut calls = String::new();
        let mut asserts = String::new();
        let mut nc = 0;
        let mut na = 0;
        for (bb, data) in body.basic_blocks.iter_enumerated() {
            if bb.index() > 0 {
                out.push(',');
            }
            let term = data.terminator();
            let mut succs: Vec<usize> = vec![];
            let mut kind = "o";
            match &term.kind {
                mir::TerminatorKind::Goto { target } => succs.push(target.index()),
                mir::TerminatorKind::SwitchInt { targets, .. } => {
                    for t in targets.all_targets() {
                        succs.push(t.index());
                    }
                    kind = "sw";
                }
                mir::TerminatorKind::Return => kind = "ret",
                mir::TerminatorKind::Unreachable => kind = "unr",
                mir::TerminatorKind::Drop { target, .. } => succs.push(target.index()),
                mir::TerminatorKind::Call { func, target, fn_span, args, .. } => {
                    kind = "call";
                    if let Some(t) = target {
                        succs.push(t.index());
                    }
                    if nc > 0 {
                        calls.push(',');
                    }
                    nc += 1;
                    let _ = write!(calls, "{{\"bb\":{},\"s\":{}", bb.index(), js(&self.span(*fn_span)));
                    if fn_span.from_expansion() {
                        let m = self.macros(*fn_span);
                        calls.push_str(",\"m\":[");
                        for (i, n) in m.iter().enumerate() {
                            if i > 0 {
                                calls.push(',');
                            }
                            calls.push_str(&js(n));
                        }
                        calls.push(']');
                    }
                    if let Some((fd, ga)) = func.const_fn_def() {
                        let _ = write!(calls, ",\"d\":{},\"ga\":{}", js(&self.defpath(fd)), js(&format!("{:?}", ga)));
                        if let Ok(Some(inst)) = ty::Instance::try_resolve(tcx, env, fd, ga) {
                            let rd = inst.def_id();
                            if rd != fd {
                                let _ = write!(calls, ",\"rd\":{}", js(&self.defpath(rd)));
                            }
                        }
                    } else {
                        let t = func.ty(&body.local_decls, tcx);
                        let _ = write!(calls, ",\"ind\":{}", js(&t.to_string()));
                    }
                    calls.push_str(",\"at\":[");
                    for (i, a) in args.iter().enumerate() {
                        if i > 0 {
                            calls.push(',');
                        }
                        let t = a.node.ty(&body.local_decls, tcx);
                        let ix = self.ty_ix(t);
                        let _ = write!(calls, "{}", ix);
                    }
                    calls.push_str("]}");
                }
                mir::TerminatorKind::Assert { target, msg, .. } => {
                    kind = "assert";
                    succs.push(target.index());
                    if na > 0 {
                        asserts.push(',');
                    }
                    na += 1;
                    let k = match &**msg {
                        mir::AssertKind::BoundsCheck { .. } => "bounds",
                        mir::AssertKind::Overflow(..) => "overflow",
                        mir::AssertKind::OverflowNeg(..) => "overflow",
                        mir::AssertKind::DivisionByZero(..) => "divzero",
                        mir::AssertKind::RemainderByZero(..) => "remzero",
                        _ => "other",
                    };
                    let _ = write!(asserts, "{{\"bb\":{},\"kind\":\"{}\",\"s\":{}}}", bb.index(), k, js(&self.span(term.source_info.span)));
                }
                mir::TerminatorKind::FalseEdge { real_target, .. } => succs.push(real_target.index()),
                mir::TerminatorKind::FalseUnwind { real_target, .. } => succs.push(real_target.index()),
                _ => {}
            }
            let _ = write!(out, "[\"{}\"", kind);
            for s in succs {
                let _ = write!(out, ",{}", s);
            }
            out.push(']');
        }
        let _ = write!(out, "],\"calls\":[{}],\"asserts\":[{}]}}", calls, asserts);
    }

    fn dump(&mut self) -> String {
        let tcx = self.tcx;
        let mut out = String::with_capacity(1 << 24);
        let cname = tcx.crate_name(rustc_hir::def_id::LOCAL_CRATE).to_string();
        let _ = write!(out, "{{\"crate\":{},\n\"adts\":[", js(&cname));
        // ---- items
        let items = tcx.hir_crate_items(());
        let mut first = true;
        let mut impls = String::new();
        let mut traits = String::new();
        let mut nimpl = 0;
        let mut ntrait = 0;
        for id in items.free_items() {
            let item = tcx.hir_item(id);
            let did = item.owner_id.def_id;
            match item.kind {
                hir::ItemKind::Struct(..) | hir::ItemKind::Enum(..) | hir::ItemKind::Union(..) => {
                    let adt = tcx.adt_def(did);
                    if !first {
                        out.push_str(",\n");
                    }
                    first = false;
                    let _ = write!(
                        out,
                        "{{\"d\":{},\"kind\":{},\"s\":{},\"variants\":[",
                        js(&self.defpath(did.to_def_id())),
                        js(if adt.is_enum() { "enum" } else if adt.is_union() { "union" } else { "struct" }),
                        js(&self.span(item.span))
                    );
                    for (vi, v) in adt.variants().iter().enumerate() {
                        if vi > 0 {
                            out.push(',');
                        }
                        let _ = write!(out, "{{\"n\":{},\"f\":[", js(v.name.as_str()));
                        for (fi, f) in v.fields.iter().enumerate() {
                            if fi > 0 {
                                out.push(',');
                            }
                            let t = tcx.type_of(f.did).instantiate_identity().skip_norm_wip();
                            let _ = write!(out, "[{},{},{}]", js(f.name.as_str()), js(&t.to_string().replace("crate::", &self.cprefix)), f.vis.is_public());
                        }
                        out.push_str("]}");
                    }
                    out.push_str("]}");
                }
                hir::ItemKind::Impl(imp) => {
                    if nimpl > 0 {
                        impls.push_str(",\n");
                    }
                    nimpl += 1;
                    let selfty = tcx.type_of(did).instantiate_identity().skip_norm_wip();
                    let tref = tcx.impl_opt_trait_ref(did).map(|t| t.instantiate_identity().skip_norm_wip());
                    let _ = write!(impls, "{{\"d\":{},\"self\":{},\"s\":{}", js(&self.defpath(did.to_def_id())), js(&selfty.to_string().replace("crate::", &self.cprefix)), js(&self.span(item.span)));
                    if let ty::Adt(a, _) = selfty.kind() {
                        let _ = write!(impls, ",\"self_adt\":{}", js(&self.defpath(a.did())));
                    }
                    if let Some(t) = tref {
                        let _ = write!(impls, ",\"trait\":{},\"trait_ref\":{}", js(&self.defpath(t.def_id)), js(&format!("{:?}", t).replace("crate::", &self.cprefix)));
                    }
                    impls.push_str(",\"items\":[");
                    for (i, r) in imp.items.iter().enumerate() {
                        if i > 0 {
                            impls.push(',');
                        }
                        let d = r.owner_id.def_id.to_def_id();
                        let _ = write!(impls, "[{},{}]", js(tcx.item_name(d).as_str()), js(&format!("{:?}", tcx.def_kind(d))));
                    }
                    impls.push_str("]}");
                }
                hir::ItemKind::Trait { .. } => {
                    if ntrait > 0 {
                        traits.push_str(",\n");
                    }
                    ntrait += 1;
                    let _ = write!(traits, "{{\"d\":{},\"items\":[", js(&self.defpath(did.to_def_id())));
                    for (i, a) in tcx.associated_items(did.to_def_id()).in_definition_order().enumerate() {
                        if i > 0 {
                            traits.push(',');
                        }
                        let _ = write!(traits, "[{},{},{}]", js(a.name().as_str()), js(&format!("{:?}", tcx.def_kind(a.def_id))), a.defaultness(tcx).has_value());
                    }
                    traits.push_str("]}");
                }
                _ => {}
            }
        }
        let _ = write!(out, "],\n\"impls\":[{}],\n\"traits\":[{}],\n\"fns\":[", impls, traits);
        // ---- bodies
        let mut first = true;
        let mut mirs = String::new();
        let mut nm = 0;
        for owner in tcx.hir_body_owners() {
            let dk = tcx.def_kind(owner);
            let is_fn = matches!(dk, DefKind::Fn | DefKind::AssocFn);
            if matches!(dk, DefKind::Fn | DefKind::AssocFn | DefKind::Closure) {
                if nm > 0 {
                    mirs.push_str(",\n");
                }
                nm += 1;
                self.mir_facts(&mut mirs, owner);
            }
            if !matches!(dk, DefKind::Fn | DefKind::AssocFn | DefKind::Const { .. } | DefKind::AssocConst { .. } | DefKind::Static { .. }) {
                continue;
            }
            let body = tcx.hir_body_owned_by(owner);
            let tr = tcx.typeck(owner);
            if !first {
                out.push_str(",\n");
            }
            first = false;
            let d = owner.to_def_id();
            let _ = write!(out, "{{\"d\":{},\"dk\":{},\"name\":{},\"s\":{}", js(&self.defpath(d)), js(&format!("{:?}", dk)), js(tcx.item_name(d).as_str()), js(&self.span(tcx.def_span(d))));
            // parent impl / trait
            let parent = tcx.parent(d);
            match tcx.def_kind(parent) {
                DefKind::Impl { .. } => {
                    let selfty = tcx.type_of(parent).instantiate_identity().skip_norm_wip();
                    let _ = write!(out, ",\"impl\":{},\"self\":{}", js(&self.defpath(parent)), js(&selfty.to_string().replace("crate::", &self.cprefix)));
                    if let ty::Adt(a, _) = selfty.kind() {
                        let _ = write!(out, ",\"self_adt\":{}", js(&self.defpath(a.did())));
                    }
                    if let Some(t) = tcx.impl_opt_trait_ref(parent) {
                        let _ = write!(out, ",\"trait\":{}", js(&self.defpath(t.instantiate_identity().skip_norm_wip().def_id)));
                    }
                }
                DefKind::Trait => {
                    let _ = write!(out, ",\"in_trait\":{}", js(&self.defpath(parent)));
                }
                _ => {}
            }
            if is_fn {
                let _ = write!(out, ",\"vis\":{}", js(&format!("{:?}", tcx.visibility(d))));
                let sig = tcx.fn_sig(d).instantiate_identity().skip_norm_wip().skip_binder();
                let ri = self.ty_ix(sig.output());
                let _ = write!(out, ",\"ret\":{},\"unsafe\":{}", ri, !sig.safety().is_safe());
            }
            out.push_str(",\"params\":[");
            for (i, p) in body.params.iter().enumerate() {
                if i > 0 {
                    out.push(',');
                }
                self.pat(&mut out, owner, p.pat, tr);
            }
            out.push_str("],\"body\":");
            self.expr(&mut out, owner, body.value, tr);
            out.push('}');
        }
        let _ = write!(out, "],\n\"mir\":[{}],\n\"types\":[", mirs);
        for (i, t) in self.types.iter().enumerate() {
            if i > 0 {
                out.push(',');
            }
            out.push_str(&js(t));
        }
        out.push_str("]}\n");
        out
    }
}

struct Cb;

impl Callbacks for Cb {
    fn after_analysis<'tcx>(&mut self, _c: &Compiler, tcx: TyCtxt<'tcx>) -> Compilation {
        let cname = tcx.crate_name(rustc_hir::def_id::LOCAL_CRATE).to_string();
        let dir = match std::env::var("PV_FACTS_DIR") {
            Ok(d) => d,
            Err(_) => return Compilation::Continue,
        };
        if !CRATES.contains(&cname.as_str()) {
            return Compilation::Continue;
        }
        // skip test / bench / example harness builds
        if tcx.sess.opts.test {
            return Compilation::Continue;
        }
        let s = with_crate_prefix!(with_no_trimmed_paths!({
            let mut cx = Cx { tcx, types: vec![], type_ix: HashMap::new(), cprefix: format!("{}::", cname) };
            cx.dump()
        }));
        let path = format!("{}/{}.json", dir, cname);
        let tmp = format!("{}.tmp{}", path, std::process::id());
        std::fs::write(&tmp, s).expect("write facts");
        std::fs::rename(&tmp, &path).expect("rename facts");
        Compilation::Continue
    }
}

fn main() {
    let mut args: Vec<String> = std::env::args().collect();
    // RUSTC_WORKSPACE_WRAPPER: argv[1] is the path of the real rustc
    if args.len() > 1 && (args[1].ends_with("rustc") || args[1].contains("/rustc")) {
        args.remove(1);
    }
    let mut cb = Cb;
    rustc_driver::run_compiler(&args, &mut cb);
}
