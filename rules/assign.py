"""R06.7 - witness assignment never silently drops surplus proof elements.

`set_proof_with_pis_target` copies a proof into the targets of the in-circuit verifier.  Wherever it pairs a sequence of
targets T with a sequence of proof values V by a truncating `zip`, a proof whose V is LONGER than T is natively rejected
(shape validation) but its surplus elements would simply not be copied - the outer circuit then sees a well-formed proof.
Rule: every such pairing is exact (`zip_eq`), or pairs fixed-size arrays, or is dominated by an Err-returning guard whose
continue-condition implies len(V) <= len(T).  (A V shorter than T leaves targets unassigned, which witness generation rejects;
that direction needs no guard.)
"""
from . import flow, cha as cha_mod
from .facts import pat_binds, ty_adt


# value-side field name -> target-side field name where the two structs differ
FIELD_RENAME = {'lookup_zs_next': 'next_lookup_zs'}


def _paths(v, root):
    out = set()
    for a in flow.flat(v):
        if a.startswith('p:'):
            r = a[2:].split('.')[0].split('[')[0]
            if r == root:
                out.add(a)
    return out


def _minimal(ps):
    def is_prefix(p, q):
        return q != p and (q.startswith(p + '.') or q.startswith(p + '['))
    return {a for a in ps if not any(is_prefix(b, a) for b in ps)}


def _is_array(t):
    t = (t or '').replace('&', '').strip()
    return t.startswith('[') and ';' in t


def check(F, ck, rule, entry_q='WitnessWrite::set_proof_with_pis_target', floor=6, crate='plonky2'):
    C = cha_mod.CHA(F)
    cands = [f for f in F.find(entry_q, crate=crate) if f.body is not None]
    if len(cands) != 1:
        ck.ob(rule, 'anchor:' + entry_q, False, 'ANCHOR-MISSING: %s (%d candidates)' % (entry_q, len(cands)), entry_q)
        return
    fn = cands[0]
    # target / value roots by type: the *Target-typed parameter is T, the other proof-typed one is V
    troot = vroot = None
    for p in fn.params:
        for b in pat_binds(p):
            t = ty_adt(fn.types[b['t']] if b.get('t') is not None else '') or ''
            if t.endswith('Target') and troot is None and b['n'] != 'self':
                troot = b['n']
            elif (t.startswith('Proof') or t.startswith('StarkProof')) and not t.endswith('Target'):
                vroot = b['n']
    if troot is None or vroot is None:
        ck.ob(rule, 'anchor:params', False, 'ANCHOR-MISSING: cannot identify the target and value parameters of %s' % fn.qual, '%s:%d' % (fn.file, fn.line))
        return

    def inl(c, d, ev):
        t = [f for f in C.targets(c, d) if f.crate in ('plonky2', 'starky') and ('iop/witness.rs' in f.file or 'fri/witness_util.rs' in f.file or 'plonk/proof.rs' in f.file or 'fri/structure.rs' in f.file or 'starky/src/recursive_verifier.rs' in f.file or 'starky/src/proof.rs' in f.file)]
        return t[:2]
    fl = flow.Flow(F, fn, inline=inl, depth=6, opaque=('PartialWitness', 'PartitionWitness', 'Self'))
    guards = [e for e in fl.events if e.kind == 'guard']
    n = 0
    seen = {}
    for e in fl.events:
        if e.kind != 'call' or e.name not in ('zip', 'zip_eq'):
            continue
        if e.node.get('k') == 'MCall':
            ops = [(e.recv, e.node['r'])] + [(a, an) for a, an in zip(e.args, e.node.get('a', []))]
        else:
            ops = [(a, an) for a, an in zip(e.args, e.node.get('a', []))]
        if len(ops) != 2:
            continue
        tp = [(v, nd) for v, nd in ops if _paths(v, troot) and not _paths(v, vroot)]
        vp = [(v, nd) for v, nd in ops if _paths(v, vroot) and not _paths(v, troot)]
        if len(tp) != 1 or len(vp) != 1:
            continue
        T = _minimal(_paths(tp[0][0], troot))
        V = _minimal(_paths(vp[0][0], vroot))
        key = 'pair:%s:%s' % (e.fn.name, '+'.join(sorted(x[2 + len(vroot):].lstrip('.') for x in V))[:120])
        n += 1
        if e.name == 'zip_eq':
            ok, why = True, 'exact pairing (zip_eq)'
        elif _is_array(e.fn.ty(tp[0][1])) and _is_array(e.fn.ty(vp[0][1])):
            ok, why = True, 'fixed-size arrays'
        else:
            ok, why = False, None
            for g in guards:
                for rel, lp, rp, weak, _ln, _rn, _fn in g.cmps:
                    if weak:
                        continue
                    if (lp & T) and (rp & V) and rel in ('Ge', 'Gt', 'Eq'):
                        ok = True
                    if (lp & V) and (rp & T) and rel in ('Le', 'Lt', 'Eq'):
                        ok = True
                    if ok:
                        why = 'guard at %s rejects a value sequence longer than its targets' % g.loc()
                        break
                if ok:
                    break
        if key in seen:
            if not ok and seen[key]:
                seen[key] = False
            elif ok:
                continue
        seen[key] = ok
        ck.ob(rule, key, ok, why if ok else
              'SURPLUS ELEMENTS DROPPED: %s pairs targets with proof values (%s) by a truncating zip and no Err-returning guard rejects a value sequence longer than the targets: '
              'a proof that the native verifier rejects for its shape is copied as if well-formed and accepted in-circuit' % (e.fn.qual, ', '.join(sorted(x[2:] for x in V))[:200]), e.loc())
    ck.floor(rule, 'target/value pairings in the witness-assignment closure', n, floor)
    # concatenations: when several proof fields are flattened into one sequence before being paired with the (equally flattened)
    # targets, only the TOTAL length is compared: an element can move from the end of one field to the start of the next
    # (natively rejected: each field has its own required length) without the assignment noticing.  Each concatenated field needs
    # its own length equality between target and value.
    cat = {}
    for e in fl.events:
        if e.kind != 'call' or e.name not in ('zip', 'zip_eq'):
            continue
        if e.node.get('k') == 'MCall':
            ops = [e.recv] + list(e.args)
        else:
            ops = list(e.args)
        for v in ops:
            V = _minimal(_paths(v, vroot))
            fields = sorted({x for x in V})
            parents = {}
            for x in fields:
                # group sibling fields by their parent path: p:root.a.b.<field>[]...
                body = x[2:]
                segs = body.split('.')
                for k in range(len(segs) - 1, 0, -1):
                    if not segs[k].endswith('[]') or True:
                        par = '.'.join(segs[:k])
                        parents.setdefault(par, set()).add(segs[k].split('[')[0])
                        break
            for par, fs in parents.items():
                if len(fs) >= 2:
                    cat.setdefault(par, set()).update(fs)
    for par, fs in sorted(cat.items()):
        # the target-side parent has the same field names
        for f in sorted(fs):
            okf = False
            for g in guards:
                for rel, lp, rp, weak, _ln, _rn, _fn in g.cmps:
                    if weak or rel != 'Eq':
                        continue
                    both = lp | rp
                    tf = FIELD_RENAME.get(f, f)
                    if any(a.startswith('p:' + vroot) and a.split('[')[0].endswith('.' + f) for a in both) and any(a.startswith('p:' + troot) and a.split('[')[0].endswith(('.' + f, '.' + tf)) for a in both):
                        okf = True
            ck.ob(rule, 'concat:%s.%s' % (par.split('.', 1)[-1] if '.' in par else par, f), okf, 'own length equality for this concatenated field' if okf else
                  'FIELD BOUNDARY LOST: %s.%s is flattened together with its sibling fields before being paired with the targets, and no guard compares its own length with its target\'s: moving an element across the boundary of two '
                  'fields gives a proof the native verifier rejects (wrong field lengths) but the same assignment' % (par, f), '%s:%d' % (fn.file, fn.line))
    # optional parts: `if let (Some(t), Some(v)) = (&target.x, &proof.x) { set(t, v) }` drops a value whose target is absent
    from .facts import walk
    fns = {}
    for e in fl.events:
        fns[e.fn.d] = e.fn
    fns[fn.d] = fn
    for f in fns.values():
        for x in walk(f.body):
            if x.get('k') != 'If' or x['c'].get('k') != 'LetE':
                continue
            pat, init = x['c']['p'], x['c']['i']
            if pat.get('k') != 'PTuple' or init.get('k') != 'Tup' or len(pat['a']) != 2 or len(init['a']) != 2:
                continue
            if not all(q.get('k') == 'PTupleStruct' and (q.get('d') or '').endswith('Some') for q in pat['a']):
                continue
            tys = [f.ty(a) or '' for a in init['a']]
            if not all('Option<' in t for t in tys) or sum('Target' in t for t in tys) != 1:
                continue
            vi = 0 if 'Target' not in tys[0] else 1
            vnode = init['a'][vi]
            while vnode.get('k') in ('Ref', 'Un'):
                vnode = vnode['e']
            fieldn = vnode.get('n') if vnode.get('k') == 'Field' else '?'
            el = x.get('el')
            ok = el is not None and (flow.diverges_with_err(el) or flow.tail_is_err(el))
            if not ok:
                for g in guards:
                    ps = [a for a in g.pins if a.endswith('.' + fieldn) or a.endswith('.' + fieldn + '[]')]
                    if any(_paths(frozenset([a]), troot) for a in ps) and any(_paths(frozenset([a]), vroot) for a in ps):
                        ok = True
                        break
            ck.ob(rule, 'option-pair:%s:%s' % (f.name, fieldn), ok, 'presence of the optional part agrees between target and value (or the mismatch is an error)' if ok else
                  'SURPLUS OPTIONAL PART DROPPED: %s copies %s only when both the target and the proof have it, and nothing rejects a proof that HAS it when the circuit has no target for it: '
                  'such a proof is rejected natively (shape) but its extra part is ignored in-circuit' % (f.qual, fieldn), x.get('s'))
