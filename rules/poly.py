"""Polynomial normal form of integer length expressions (static algebraic normalisation, no execution).

An expression built from integer literals, + - *, struct fields, `.len()`, and calls of small workspace functions is
rewritten into a polynomial over symbols.  Symbols are TYPE-qualified (`CommonCircuitData.num_constants`,
`CircuitConfig.num_wires`, `len(OpeningSet.wires)`): which instance a field is read from is not tracked here (R06.6 does
that for the in-circuit side).  Workspace callees with a body are inlined (depth-bounded); calls that cannot be evaluated
become opaque symbols named after the callee.  Anything else raises Unknown - the rule using it then reports
'not applicable' instead of guessing."""
from .facts import ty_adt, parse_path, callee, pat_binds


class Unknown(Exception):
    pass


def const(c):
    return {(): c} if c else {}


def sym(s):
    return {(s,): 1}


def add(a, b, sign=1):
    r = dict(a)
    for m, c in b.items():
        r[m] = r.get(m, 0) + sign * c
        if r[m] == 0:
            del r[m]
    return r


def mul(a, b):
    r = {}
    for m1, c1 in a.items():
        for m2, c2 in b.items():
            m = tuple(sorted(m1 + m2))
            r[m] = r.get(m, 0) + c1 * c2
            if r[m] == 0:
                del r[m]
    return r


def show(p):
    if not p:
        return '0'
    parts = []
    for m, c in sorted(p.items()):
        t = '*'.join(m) if m else ''
        parts.append(('%d' % c if not t else ('' if c == 1 else '%d*' % c) + t))
    return ' + '.join(parts)


class Ev:
    def __init__(self, F, depth=4):
        self.F = F
        self.depth = depth

    def fn_poly(self, fn, args=None, depth=None):
        """polynomial of the value returned by a function whose body is a block of lets with a tail expression"""
        env = {}
        if args:
            ids = [b['id'] for p in fn.params for b in pat_binds(p)]
            for i, a in zip(ids, args):
                env[i] = a
        return self.ev(fn, fn.body, env, self.depth if depth is None else depth)

    def range_of(self, fn, n, env, depth):
        k = n.get('k')
        if k == 'Struct' and 'Range' in (n.get('d') or ''):
            f = dict((a, b) for a, b in n['f'])
            return (self.ev(fn, f['start'], env, depth) if 'start' in f else const(0)), (self.ev(fn, f['end'], env, depth) if 'end' in f else None)
        if k == 'Block' and 'e' in n:
            e2 = dict(env)
            for s_ in n['st']:
                if s_.get('k') == 'Let' and 'i' in s_ and s_['p'].get('k') == 'Bind':
                    try:
                        e2[s_['p']['id']] = self.ev(fn, s_['i'], e2, depth)
                    except Unknown as ex:
                        e2[s_['p']['id']] = ex
            return self.range_of(fn, n['e'], e2, depth)
        if k in ('MCall', 'Call') and depth > 0:
            t = self.target(n)
            if t is not None and t.body is not None:
                return self.range_of(t, t.body, {}, depth - 1)
        raise Unknown('range expression')

    def target(self, n):
        c = callee(n)
        if not c:
            return None
        f = self.F.fns.get(c)
        if f is not None and f.body is not None:
            return f
        return None

    def ev(self, fn, n, env, depth):
        k = n.get('k')
        if k == 'Lit':
            if n.get('lk') == 'int':
                return const(int(n['v']))
            raise Unknown('literal')
        if k in ('Cast', 'Ref'):
            return self.ev(fn, n['e'], env, depth)
        if k == 'Un':
            if n.get('op') == 'Deref':
                return self.ev(fn, n['e'], env, depth)
            raise Unknown('unary')
        if k == 'Local':
            if n['id'] in env:
                v = env[n['id']]
                if isinstance(v, Exception):
                    raise v
                return v
            raise Unknown('local ' + n.get('n', '?'))
        if k == 'Block':
            e2 = dict(env)
            for s in n['st']:
                if s.get('k') == 'Let' and 'i' in s and s['p'].get('k') == 'Bind':
                    try:
                        e2[s['p']['id']] = self.ev(fn, s['i'], e2, depth)
                    except Unknown as ex:
                        e2[s['p']['id']] = ex
            if 'e' not in n:
                raise Unknown('block without value')
            return self.ev(fn, n['e'], e2, depth)
        if k == 'Bin':
            op = n['op']
            if op in ('Add', 'Sub', 'Mul'):
                a, b = self.ev(fn, n['l'], env, depth), self.ev(fn, n['r'], env, depth)
                return add(a, b) if op == 'Add' else add(a, b, -1) if op == 'Sub' else mul(a, b)
            if op == 'Shl':
                a, b = self.ev(fn, n['l'], env, depth), self.ev(fn, n['r'], env, depth)
                if a == const(1) and len(b) == 1 and list(b.values()) == [1]:
                    return sym('2^(%s)' % show(b))
            if op in ('Div', 'Rem'):
                a, b = self.ev(fn, n['l'], env, depth), self.ev(fn, n['r'], env, depth)
                if op == 'Div' and b:
                    # the ceiling-division idiom (x + n - 1) / n is the same function as x.div_ceil(n)
                    x = add(add(a, b, -1), const(1))
                    if all(c > 0 for c in x.values()) and all(a.get(m, 0) >= c for m, c in b.items() if m != ()) and x != a:
                        return sym('div_ceil(%s, %s)' % (show(x), show(b)))
                if op == 'Div' and b and a.get((), 0) == -1 and len(a) > 1 and all(c > 0 for m, c in a.items() if m != ()):
                    # the other ceiling idiom: (x - 1) / n is x.div_ceil(n) - 1 for every x >= 1 (x = 0 underflows before dividing)
                    return add(sym('div_ceil(%s, %s)' % (show(add(a, const(1))), show(b))), const(1), -1)
                return sym('(%s)%s(%s)' % (show(a), '/' if op == 'Div' else '%', show(b)))
            raise Unknown('operator ' + op)
        if k == 'If' and 'el' in n:
            # a conditional value: the common value if both arms agree, else an opaque `ite` of the two (never equal to a plain polynomial)
            a, b = self.ev(fn, n['th'], env, depth), self.ev(fn, n['el'], env, depth)
            if a == b:
                return a
            return sym('ite(%s)' % '; '.join(sorted([show(a), show(b)])))
        if k == 'Def':
            c = self.F.fns.get(n['d'])
            if c is not None and c.body is not None and depth > 0 and (c.raw.get('dk') or '').startswith(('Const', 'AssocConst')):
                try:
                    return self.ev(c, c.body, {}, depth - 1)
                except Unknown:
                    pass
            return sym(n['d'].split('::')[-1])
        if k == 'Field':
            if n['n'] in ('start', 'end'):
                try:
                    s, e = self.range_of(fn, n['e'], env, depth)
                    r = s if n['n'] == 'start' else e
                    if r is not None:
                        return r
                except Unknown:
                    pass
            bt = ty_adt(fn.ty(n['e']) or '')
            if bt:
                return sym('%s.%s' % (bt, n['n']))
            raise Unknown('field of unknown type')
        if k == 'MCall' and n['n'] == 'len' and not n['a']:
            r = n['r']
            while r.get('k') in ('Ref', 'Un'):
                r = r['e']
            if r.get('k') == 'Field':
                bt = ty_adt(fn.ty(r['e']) or '')
                if bt:
                    return sym('len(%s.%s)' % (bt, r['n']))
            if r.get('k') == 'Local':
                return sym('len(@%s)' % r.get('n'))
            raise Unknown('len of non-field')
        if k in ('MCall', 'Call'):
            nm0 = n.get('n') if k == 'MCall' else parse_path(callee(n) or '')[1]
            argn0 = ([n['r']] if k == 'MCall' else []) + list(n.get('a', []))
            if nm0 in ('min', 'max') and len(argn0) == 2:
                # commutative opaque function of its (normalised) arguments
                return sym('%s(%s)' % (nm0, ', '.join(sorted(show(self.ev(fn, a, env, depth)) for a in argn0))))
            if nm0 in ('div_ceil', 'saturating_sub', 'checked_sub', 'pow') and len(argn0) == 2:
                return sym('%s(%s)' % (nm0, ', '.join(show(self.ev(fn, a, env, depth)) for a in argn0)))
            t = self.target(n)
            if t is not None and depth > 0:
                try:
                    argn = ([n['r']] if k == 'MCall' else []) + list(n.get('a', []))
                    args = []
                    for a in argn:
                        try:
                            args.append(self.ev(fn, a, env, depth))
                        except Unknown as ex:
                            args.append(ex)
                    r_ = self.fn_poly(t, args, depth - 1)
                    # a callee whose value is conditional stays an opaque function of its arguments (salt_size(hiding))
                    if not any(x.startswith('ite(') for m in r_ for x in m):
                        return r_
                except Unknown:
                    pass
            nm = parse_path(callee(n) or '')[1] or n.get('n')
            if nm:
                # opaque function symbol; integer / field arguments that can be normalised are part of the symbol
                parts = []
                for a in argn0:
                    try:
                        parts.append(show(self.ev(fn, a, env, depth)))
                    except Unknown:
                        pass
                return sym('%s(%s)' % (nm, ', '.join(parts)))
            raise Unknown('call')
        raise Unknown(str(k))


def cmp_diffs(E, fn, depth=3):
    """every ordering comparison of a function as a polynomial e with the meaning  e >= 0  (lets evaluated in order; parameters and
    pattern bindings are symbols @name). Returns [(poly, node)]."""
    from .facts import walk, pat_binds
    env = {}
    for p in fn.params:
        for b in pat_binds(p):
            env[b['id']] = sym('@' + b['n'])
    for x in walk(fn.body):
        pats = []
        if x.get('k') == 'Match':
            pats = [a.get('p') for a in x.get('arms', [])]
        elif x.get('k') in ('For', 'Let', 'Closure'):
            pats = [x.get('p')] + list(x.get('ps', []) if isinstance(x.get('ps'), list) else [])
        for p in pats:
            if isinstance(p, dict):
                for b in pat_binds(p):
                    if b.get('id') not in env:
                        env[b['id']] = sym('@' + b.get('n', '?'))
    for x in walk(fn.body):
        if x.get('k') == 'Let' and 'i' in x and x['p'].get('k') == 'Bind':
            try:
                env[x['p']['id']] = E.ev(fn, x['i'], env, depth)
            except Unknown:
                env[x['p']['id']] = sym('@' + x['p'].get('n', '?'))
    out = []
    for x in walk(fn.body):
        if x.get('k') == 'Bin' and x.get('op') in ('Lt', 'Le', 'Gt', 'Ge'):
            try:
                d = add(E.ev(fn, x['l'], env, depth), E.ev(fn, x['r'], env, depth), -1)
            except Unknown:
                continue
            op = x['op']
            if op in ('Le', 'Lt'):
                d = add({}, d, -1)
            if op in ('Gt', 'Lt'):
                d = add(d, const(1), -1)
            out.append((d, x))
    return out
