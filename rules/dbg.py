import sys, os
sys.path.insert(0, os.path.dirname(os.path.dirname(os.path.abspath(__file__))))
sys.setrecursionlimit(20000)
from rules import facts, flow
F = facts.Facts('default')
q = sys.argv[1]
depth = int(sys.argv[2]) if len(sys.argv) > 2 else 0
fns = F.find(q)
print([f.d for f in fns])
fn = fns[0]
inl = (lambda c, d, ev: F.fns.get(c)) if depth else None
fl = flow.Flow(F, fn, inline=inl, depth=depth)
for e in fl.events:
    if e.kind in ('let',): continue
    ctx = ' '.join('%s' % fr[0] for fr in e.ctx)
    print('%-7s %-40s %s [%s] stack=%d' % (e.kind, (e.q or '')[:40], e.loc().split('/')[-1], ctx, len(e.stack)))
    if e.kind in ('guard', 'assert', 'try'):
        print('        val:', sorted(flow.flat(e.val)))
    if e.kind == 'call' and len(sys.argv) > 3:
        print('        recv:', sorted(flow.flat(e.recv)) if e.recv is not None else None)
        for a in e.args: print('        arg:', sorted(flow.flat(a)))
print('RET', sorted(flow.flat(fl.ret)))
