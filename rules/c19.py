"""C19 - circuit keys and verdicts do not depend on schedule, hash seeds or SIMD build (structural clauses).

R19.1 no hash-container iteration order reaches keys / proofs / encodings: every iteration over a HashMap/HashSet is
      order-insensitive, sorted (by an injective key where the sorted list feeds the key), log-only, or a reviewed exception
R19.2 only order-preserving / schedule-independent rayon combinators; find_any only in the grinding search, re-checked sequentially
R19.3 the packed field type is selected only by target features (cfg) in one place  [census]
"""
import re
from . import flow
from .facts import walk, kids, parse_path, callee, pat_binds

ITER = {'iter', 'iter_mut', 'keys', 'values', 'values_mut', 'into_iter', 'into_keys', 'into_values', 'drain', 'retain',
        'union', 'intersection', 'difference', 'symmetric_difference', 'extract_if', 'par_iter'}
INSENSITIVE_TERMINALS = {'count', 'len', 'any', 'all', 'sum', 'product', 'max', 'min', 'max_by_key', 'min_by_key', 'contains', 'is_empty', 'is_subset', 'is_superset', 'is_disjoint'}
ADAPTERS = {'map', 'filter', 'filter_map', 'flat_map', 'cloned', 'copied', 'enumerate', 'zip', 'chain', 'rev', 'peekable', 'skip', 'take', 'inspect', 'flatten', 'by_ref', 'into_iter', 'iter'}

POSITIONAL = {'zip', 'zip_eq', 'enumerate', 'take', 'skip', 'step_by', 'nth', 'next', 'first', 'last', 'position', 'chunks', 'tuples', 'tuple_windows', 'interleave'}

REVIEWED = {
    ('Forest::wire_partition', 'into_values'): 'subsets are collected into WirePartition; its only consumer get_sigma_map inserts into a map keyed by wire, so subset order is irrelevant',
    ('generate_partial_witness', 'into_iter'): 'inputs are written with set_target: inserts commute, and conflicting values are an error in any order',
    ('CircuitBuilder::print_gate_counts', 'iter'): 'debug logging only',
    ('CircuitBuilder::print_gate_counts', 'for'): 'debug logging only',
    ('check_ctl', 'for'): 'starky debug_utils: each entry is an independent assertion that can only panic; order affects only which mismatch is reported first',
    ('CompressedFriProof::decompress', 'values'): 'takes an arbitrary entry only to read evals_proofs.len(), which shape validation makes equal for all entries',
}
# sorted lists that feed the circuit key: the sort key must be injective on the set
INJECTIVE_KEYS = {
    ('CircuitBuilder::try_build_with_options', 'gates'): ('id', 'gate ids are unique per gate value; degree alone (or other numeric parameters) ties between different gates'),
}

LOSSY_PROJECTIONS = {'truncate', 'split_off', 'drain', 'pop', 'take', 'take_while', 'chars', 'len', 'get', 'first', 'last', 'split_at', 'split', 'starts_with', 'contains', 'find', 'nth', 'bytes'}

RAYON_OK = {'enumerate', 'zip', 'chain', 'collect', 'flat_map', 'flat_map_iter', 'for_each', 'map', 'into_par_iter', 'par_chunks', 'par_chunks_exact', 'par_chunks_exact_mut', 'par_chunks_mut',
            'par_iter', 'par_iter_mut', 'join', 'len', 'step_by', 'rev', 'skip', 'take', 'copied', 'cloned', 'unzip', 'collect_into_vec', 'with_min_len', 'with_max_len', 'sum', 'min', 'max', 'count'}
RAYON_UNORDERED = {'find_any', 'find_map_any', 'any', 'all', 'for_each_with', 'try_for_each', 'reduce', 'reduce_with', 'fold', 'try_reduce', 'position_any', 'par_bridge', 'par_sort_unstable', 'par_sort_unstable_by', 'par_sort_unstable_by_key'}


def is_hash_ty(t):
    if t is None:
        return False
    t = t.strip()
    while t.startswith('&'):
        t = t[1:].lstrip()
        if t.startswith("'"):
            t = t.split(' ', 1)[1] if ' ' in t else t
        if t.startswith('mut '):
            t = t[4:]
    head = t.split('<', 1)[0]
    return head.endswith('HashMap') or head.endswith('HashSet') or 'hash_map::' in head or 'hash_set::' in head


def parents(body):
    par = {}
    for n in walk(body):
        for c in kids(n):
            par[id(c)] = n
    return par


def classify(fn, site, par):
    """follow the iterator value outward"""
    cur = site
    chain = []
    while True:
        p = par.get(id(cur))
        if p is None:
            break
        if p.get('k') == 'MCall' and p['r'] is cur:
            chain.append(p['n'])
            cur = p
            continue
        if p.get('k') in ('Ref', 'Un', 'Try', 'Cast'):
            cur = p
            continue
        if p.get('k') == 'Block' and p.get('e') is cur and len(p['st']) == 0:
            cur = p
            continue
        # value returned by a closure that is an argument of an adapter of an outer iterator chain
        if p.get('k') == 'Closure' and p['b'] is cur:
            pp = par.get(id(p))
            if pp is not None and pp.get('k') == 'MCall' and pp['n'] in ('flat_map', 'map', 'filter_map', 'flat_map_iter'):
                chain.append('|' + pp['n'])
                cur = pp
                continue
        break
    term = cur
    p = par.get(id(term))
    mac = term.get('m') or site.get('m') or []
    if any(x in ('debug', 'trace', 'info', 'log', 'warn') or x.endswith('::log') for x in mac):
        return 'log-only', chain, term
    if any(c.startswith('sorted') for c in chain):
        # the sort only helps if nothing positional happened to the unordered sequence before it: `iter().zip(xs).sorted()` has
        # already paired each element with a partner chosen by the hash order
        first = min(i for i, c in enumerate(chain) if c.startswith('sorted'))
        pos = [c for c in chain[:first] if c in POSITIONAL]
        if pos:
            return 'order-dependent', chain, term
        return 'sorted', chain, term
    TRANSPARENT = {'unwrap', 'expect', 'unwrap_or', 'unwrap_or_default', 'unwrap_or_else', 'copied', 'cloned'}
    eff = [c for c in chain if c not in TRANSPARENT]
    last = eff[-1] if eff else None
    if last in INSENSITIVE_TERMINALS:
        return 'insensitive', chain, term
    if last in ('collect', 'collect_vec', 'to_vec') or last is None and False:
        rt = fn.ty(term) or ''
        if is_hash_ty(rt) or 'BTreeMap<' in rt or 'BTreeSet<' in rt:
            return 'insensitive', chain, term
        # Vec bound to a local that is sorted before any other use
        if p is not None and p.get('k') == 'Let' and p['p'].get('k') == 'Bind':
            name, lid = p['p']['n'], p['p']['id']
            blk = par.get(id(p))
            if blk is not None and blk.get('k') == 'Block':
                after = False
                for st in blk['st']:
                    if st is p:
                        after = True
                        continue
                    if not after:
                        continue
                    uses = [x for x in walk(st) if x.get('k') == 'Local' and x['id'] == lid]
                    if not uses:
                        continue
                    srt = [x for x in walk(st) if x.get('k') == 'MCall' and x['n'].startswith('sort') and x['r'].get('k') == 'Local' and x['r']['id'] == lid]
                    if srt:
                        return 'sorted', chain + [srt[0]['n']], srt[0]
                    break
        return 'order-dependent', chain, term
    if p is not None and p.get('k') == 'For' and p['it'] is term:
        return 'order-dependent', chain + ['for'], term
    return 'order-dependent', chain, term


def run(F, ck, tier):
    ck.rule('R19.1', 'hash-container iteration sites are order-insensitive, sorted, log-only or reviewed')
    ck.rule('R19.2', 'rayon usage is limited to order-preserving combinators; find_any only in fri_proof_of_work and re-checked')
    ck.rule('R19.3', 'sorted lists that feed the circuit key are sorted by an injective key')
    # ---------------------------------------------------------------- R19.1
    sites = 0
    for fn in F.fns.values():
        if fn.crate not in ('plonky2', 'starky', 'plonky2_field', 'plonky2_util', 'plonky2_maybe_rayon'):
            continue
        if '_serde' in fn.d or (fn.trait or '').split('::')[-1] in ('Serialize', 'Deserialize', 'Debug', 'Clone', 'PartialEq', 'Hash'):
            continue
        found = []
        for n in walk(fn.body):
            k = n.get('k')
            if k == 'MCall' and n['n'] in ITER and not (n.get('m') and any('derive' in x for x in n['m'])):
                rt = fn.ty(n['r'], adjusted=True) or fn.ty(n['r']) or ''
                rt0 = fn.ty(n['r']) or ''
                if is_hash_ty(rt) or is_hash_ty(rt0):
                    found.append((n['n'], n))
            elif k == 'For':
                t = fn.ty(n['it']) or ''
                it = n['it']
                if is_hash_ty(t) and not (it.get('k') == 'MCall' and it['n'] in ITER):
                    found.append(('for', it))
        if not found:
            continue
        par = parents(fn.body)
        for i, (m, node) in enumerate(found):
            sites += 1
            cls, chain, term = classify(fn, node, par)
            if m == 'retain':
                cls = 'insensitive'
            key = 'hash-iter:%s:%s#%d' % (fn.qual, m, i)
            if cls in ('insensitive', 'sorted', 'log-only'):
                ck.ob('R19.1', key, True, '%s (%s)' % (cls, '.'.join(chain)), node.get('s'))
                continue
            rv = REVIEWED.get((fn.qual, m))
            ck.ob('R19.1', key, rv is not None, ('reviewed: ' + rv) if rv else
                  'ORDER-DEPENDENT iteration over a hash container in %s (.%s().%s): the order depends on the hash seed of the build, and flows on unsorted' % (fn.qual, m, '.'.join(chain)), node.get('s'))
    ck.floor('R19.1', 'hash-container iteration sites', sites, 11)
    # cross-check with MIR (resolved through aliases / wrappers)
    msites = 0
    for d, m in F.mir.items():
        for c in m['calls']:
            name = c.get('rd') or c.get('d', '')
            last = parse_path(name)[1]
            ga = c.get('ga', '')
            if last in ITER and not c.get('m') and ('HashMap' in name or 'HashSet' in name or (last == 'into_iter' and ('HashMap<' in ga or 'HashSet<' in ga))):
                msites += 1
    ck.ob('R19.1', 'mir-crosscheck', sites >= msites, 'typed-HIR scan found %d sites, MIR call scan %d' % (sites, msites))
    # ---------------------------------------------------------------- R19.3 injective sort keys
    for (fq, local), (must, why) in INJECTIVE_KEYS.items():
        fn = F.one(fq, crate='plonky2')
        if fn is None:
            ck.ob('R19.3', 'anchor:' + fq, False, 'ANCHOR-MISSING ' + fq)
            continue
        fl = flow.Flow(F, fn)
        ok = False
        found = False
        for e in fl.events:
            if e.kind == 'call' and e.name and e.name.startswith('sort') and e.node.get('k') == 'MCall' and e.node['r'].get('k') == 'Local' and e.node['r']['n'] == local:
                found = True
                ok = any(flow.has_call(a, must) for a in e.args)
                # ... and the id takes part WHOLE: a projection of it (a prefix, its length, a hash of it) is not injective
                lossy = sorted({x['n'] for a in e.node.get('a', []) for x in walk(a) if x.get('k') == 'MCall' and x['n'] in LOSSY_PROJECTIONS} |
                               {'[..]' for a in e.node.get('a', []) for x in walk(a) if x.get('k') == 'Index'})
                if ok and lossy:
                    ok = False
                    why = 'the key closure applies %s to it, so different %s() values can compare equal; %s' % (', '.join(lossy), must, why)
        ck.ob('R19.3', 'sortkey:%s:%s' % (fn.name, local), found and ok, 'sort key of `%s` includes %s()' % (local, must) if (found and ok) else
              ('the sort of `%s` in %s no longer keys on %s(): %s - ties are broken by hash-set iteration order, so the circuit digest depends on the build\'s hash seed' % (local, fn.qual, must, why)) if found else
              'no sort of `%s` found in %s' % (local, fn.qual), '%s:%d' % (fn.file, fn.line))
    # ---------------------------------------------------------------- R19.2
    nray = 0
    for d, m in F.mir.items():
        if m['crate'] == 'plonky2_maybe_rayon':
            continue
        for c in m['calls']:
            name = c.get('rd') or c.get('d', '')
            if not (name.startswith('rayon') or 'maybe_rayon' in name or 'rayon_core' in name):
                continue
            nray += 1
            meth = parse_path(name)[1]
            owner_fn = d
            if meth in RAYON_OK:
                continue
            fnq = parse_path(re.sub(r'::\{closure#\d+\}', '', d))[1]
            if meth == 'find_any' and fnq == 'fri_proof_of_work':
                ck.ob('R19.2', 'rayon:find_any:fri_proof_of_work', True, 'the property\'s own exception: any valid grinding witness; re-checked by the sequential challenger (see C04 R04.5)', c['s'])
                continue
            ck.ob('R19.2', 'rayon:%s:%s' % (meth, fnq), False, 'schedule-dependent or unreviewed rayon combinator %s in %s: results may depend on thread interleaving' % (meth, d), c['s'])
    ck.floor('R19.2', 'calls into rayon / maybe_rayon', nray, 60)
    ck.ob('R19.2', 'rayon:allowed-set', True, 'all other rayon calls use order-preserving combinators (%d calls)' % nray)
    # ---------------------------------------------------------------- R19.8 packed oracle reads = WIDTH scalar reads
    ck.rule('R19.8', 'get_lde_values_packed(index_start, step) is WIDTH calls of get_lde_values(index_start + i, step): the packed read of a SIMD build addresses the same rows as the scalar read (both oracle types, same arguments)')
    packed = [f for f in F.fns.values() if f.crate == 'plonky2' and f.name == 'get_lde_values_packed' and f.body is not None]
    sigs8 = {}
    for f in sorted(packed, key=lambda f: f.qual):
        pn = [b['n'] for p in f.params for b in pat_binds(p)]
        calls = [x for x in walk(f.body) if x.get('k') == 'MCall' and x.get('n') == 'get_lde_values']
        cal = F.fns.get(calls[0].get('d')) if len(calls) == 1 else None
        cpn = [b['n'] for p in cal.params for b in pat_binds(p)][1:] if cal is not None else []
        if len(calls) != 1 or 'index' not in cpn or 'step' not in cpn or len(calls[0].get('a', [])) != len(cpn):
            ck.ob('R19.8', 'packed-read:%s' % f.qual, False, 'ANCHOR-MISSING: %s no longer makes exactly one get_lde_values(.., index, step, ..) call' % f.qual, '%s:%d' % (f.file, f.line))
            continue
        a0, a1 = calls[0]['a'][cpn.index('index')], calls[0]['a'][cpn.index('step')]
        while a1.get('k') in ('Paren', 'Cast'):
            a1 = a1['e']
        step_ok = a1.get('k') == 'Local' and a1.get('n') in pn
        idx_locals = sorted({y.get('n') for y in walk(a0) if y.get('k') == 'Local'})
        idx_ok = a0.get('k') == 'Bin' and a0.get('op') == 'Add' and len(idx_locals) == 2 and len([n for n in idx_locals if n in pn]) == 1 and \
            (not step_ok or a1.get('n') not in idx_locals) and not any(y.get('k') == 'Bin' and y.get('op') != 'Add' for y in walk(a0))
        okp = step_ok and idx_ok
        sigs8[f.qual] = (step_ok, idx_ok)
        ck.ob('R19.8', 'packed-read:%s' % f.qual, okp, 'reads rows index_start + i with the caller\'s step' if okp else
              'PACKED READ ADDRESSES OTHER ROWS: %s calls get_lde_values(%s, %s) instead of (index_start + i, step): with a packing width above one and step > 1 the lanes of a batch are '
              'consecutive LDE points instead of points `step` apart, so a SIMD build evaluates the quotient on other rows than the scalar build' % (
                  f.qual, '+'.join(idx_locals) if idx_ok else 'another index expression', a1.get('n', 'another step')), calls[0].get('s'))
    ck.floor('R19.8', 'get_lde_values_packed implementations', len(packed), 2)
    # ---------------------------------------------------------------- R19.7 the oracle behind the circuit key is never salted
    ck.rule('R19.7', 'the constants/sigmas commitment, whose cap is the circuit key, is built without blinding (salts are fresh randomness: a salted key differs between two builds of the same circuit)')
    tb = F.one('CircuitBuilder::try_build_with_options', crate='plonky2')
    cs = [f for f in F.fns.values() if f.crate == 'plonky2' and f.d.endswith('PlonkOracle::CONSTANTS_SIGMAS')]
    if tb is None or len(cs) != 1 or cs[0].body is None:
        ck.ob('R19.7', 'anchor', False, 'ANCHOR-MISSING try_build_with_options / PlonkOracle::CONSTANTS_SIGMAS (%d)' % len(cs))
    else:
        lit = None
        for x in walk(cs[0].body):
            if x.get('k') == 'Struct':
                for n, i in x['f']:
                    if n == 'blinding' and i.get('k') == 'Lit':
                        lit = i.get('v')
        okc = lit in (False, 'false', 0)
        ck.ob('R19.7', 'key-oracle.const', okc, 'PlonkOracle::CONSTANTS_SIGMAS.blinding is false' if okc else
              'PlonkOracle::CONSTANTS_SIGMAS.blinding is %r: the constants/sigmas oracle would be salted with fresh randomness, so the circuit digest of one circuit program differs from build to build' % lit, '%s:%d' % (cs[0].file, cs[0].line))
        calls = [x for x in walk(tb.body) if x.get('k') == 'Call' and parse_path(callee(x) or '')[1] == 'from_values' and
                 any(y.get('k') == 'Local' and 'constants_sigmas' in (y.get('n') or '') for a in x.get('a', [])[:1] for y in walk(a))]
        if len(calls) != 1 or len(calls[0]['a']) < 3:
            ck.ob('R19.7', 'key-oracle.commit', False, 'ANCHOR-MISSING: the PolynomialBatch::from_values call on the constants/sigmas vectors (%d candidates)' % len(calls), '%s:%d' % (tb.file, tb.line))
        else:
            a = calls[0]['a'][2]

            def static_false(e):
                while e.get('k') in ('Paren', 'Cast'):
                    e = e['e']
                if e.get('k') == 'Lit':
                    return e.get('v') in (False, 'false', 0)
                if e.get('k') == 'Field' and e['n'] == 'blinding' and e['e'].get('k') == 'Def' and e['e']['d'].endswith('CONSTANTS_SIGMAS'):
                    return okc
                if e.get('k') == 'Bin' and e.get('op') == 'And':
                    return static_false(e['l']) or static_false(e['r'])
                return False
            okb = static_false(a)
            ck.ob('R19.7', 'key-oracle.commit', okb, 'the blinding argument of the constants/sigmas commitment is statically false' if okb else
                  'the constants/sigmas commitment is built with a blinding argument that is not statically false: under zero-knowledge the circuit key would be salted and differ between builds', a.get('s'))
    # ---------------------------------------------------------------- R19.6 packed strides need a size guard
    ck.rule('R19.6', 'a loop that walks a domain in strides of the packing width (step_by(P::WIDTH), slicing i..i+WIDTH) sits in a function that compares the domain size with WIDTH (fallback or assertion): the width is 1, 4 or 8 depending on the build, a domain shorter than it must not make only SIMD builds fail')
    nstr = 0
    for fn in sorted(F.fns.values(), key=lambda f: f.qual):
        if fn.crate not in ('plonky2', 'starky') or fn.body is None:
            continue
        steps = [x for x in walk(fn.body) if x.get('k') == 'MCall' and x.get('n') == 'step_by' and x.get('a') and
                 any(y.get('k') == 'Def' and y.get('d', '').endswith('::WIDTH') for y in walk(x['a'][0]))]
        if not steps:
            continue
        nstr += 1
        guarded = False
        for x in walk(fn.body):
            if x.get('k') == 'If' and any(y.get('k') == 'Bin' and y.get('op') in ('Lt', 'Le', 'Gt', 'Ge') and
                                          any(z.get('k') == 'Def' and z.get('d', '').endswith('::WIDTH') for z in list(walk(y['l'])) + list(walk(y['r']))) for y in walk(x['c'])):
                guarded = True
        ck.ob('R19.6', 'packed-stride:%s' % fn.qual, guarded, 'the domain size is compared with the packing width' if guarded else
              'PACKED STRIDE WITHOUT SIZE GUARD: %s walks its domain with step_by(P::WIDTH) and slices i..i+WIDTH, but never compares the domain size with WIDTH: for a domain shorter than the packing width '
              '(2 rows under AVX2, 4 under AVX-512) the slice is out of range and the prover panics - in SIMD builds only' % fn.qual, steps[0].get('s'))
    ck.floor('R19.6', 'functions stepping by the packing width', nstr, 1)
    # ---------------------------------------------------------------- R19.5 (AVX2 build, thorough tier)
    from . import c14
    c14.packed_canonical_operand(F, ck, 'R19.5')
    ck.decided += ['no hash iteration order reaches keys/proofs/encodings', 'gate list sorted by an injective key', 'rayon combinators are order-preserving (find_any only in grinding)']
    ck.undecided += ['lane-equality of packed (AVX2/AVX-512) arithmetic with scalar arithmetic (numeric)', 'debug/release arithmetic equality', 'bitwise determinism of transforms under any schedule']
    return 'Decides structural necessary conditions of C19 for hash-seed and schedule independence. SIMD lane equality is numeric and not decided.'
