"""Structured event skeletons: the tree (sequence / loop / alternatives) of selected calls in a function body,
in evaluation order.  Used to compare sibling implementations (native vs circuit evaluators)."""
from .facts import kids, walk, callee, parse_path
from .grammar import normalise, render, error_only

ITER_METHODS = {'map', 'for_each', 'try_for_each', 'flat_map', 'filter_map', 'fold', 'try_fold', 'zip', 'all', 'any'}


def tree(body, classify):
    out = []
    _walk(body, out, classify)
    return normalise(out)


def _walk(n, out, classify):
    if not isinstance(n, dict):
        return
    k = n.get('k')
    if k in ('Call', 'MCall'):
        if k == 'MCall':
            _walk(n['r'], out, classify)
            it = n['n'] in ITER_METHODS
            for a in n['a']:
                if a.get('k') == 'Closure':
                    inner = []
                    _walk(a['b'], inner, classify)
                    if inner:
                        out.append(('loop', inner) if it else ('alt', [inner, []]))
                else:
                    _walk(a, out, classify)
        else:
            for a in n['a']:
                if a.get('k') == 'Closure':
                    inner = []
                    _walk(a['b'], inner, classify)
                    if inner:
                        out.append(('loop', inner))
                else:
                    _walk(a, out, classify)
        lab = classify(n)
        if lab:
            out.append(('p', lab))
        return
    if k in ('For', 'While', 'Loop'):
        if k == 'For':
            _walk(n['it'], out, classify)
        elif k == 'While':
            _walk(n['c'], out, classify)
        inner = []
        _walk(n['b'], inner, classify)
        if inner:
            out.append(('loop', inner))
        return
    if k == 'If':
        _walk(n['c'], out, classify)
        a, b = [], []
        _walk(n['th'], a, classify)
        if 'el' in n:
            _walk(n['el'], b, classify)
        if a or b:
            out.append(('alt!', [a, b]))
        return
    if k == 'Match':
        _walk(n['e'], out, classify)
        arms = []
        for arm in n['arms']:
            x = []
            _walk(arm['b'], x, classify)
            arms.append(x)
        if any(arms):
            if len(arms) == 1:
                out.extend(arms[0])
            else:
                out.append(('alt!', arms))
        return
    if k == 'Closure':
        inner = []
        _walk(n['b'], inner, classify)
        if inner:
            out.append(('loop', inner))
        return
    for c in kids(n):
        _walk(c, out, classify)


def arms_tree(body, classify):
    """like tree() but keeps if/else arms separate and ordered (no prefix factoring): list of nodes where
    ('arms', [[...],[...]]) preserves arm order"""
    out = []
    _walk(body, out, classify)
    return _keep(out)


def _keep(g):
    res = []
    for x in g:
        if x[0] == 'loop':
            inner = _keep(x[1])
            if inner:
                res.append(('loop', inner))
        elif x[0] in ('alt', 'alt!'):
            arms = [_keep(a) for a in x[1]]
            if any(arms):
                res.append(('arms', arms))
        else:
            res.append(x)
    return res


def render_arms(g):
    parts = []
    for x in g:
        if x[0] == 'p':
            parts.append(x[1])
        elif x[0] == 'loop':
            parts.append('(' + render_arms(x[1]) + ')*')
        elif x[0] == 'arms':
            parts.append('{' + ' | '.join(render_arms(a) or 'eps' for a in x[1]) + '}')
    return ' '.join(parts)


def flatten_arms(g):
    """all root-to-leaf event sequences (loops kept as one pass)"""
    seqs = [[]]
    for x in g:
        if x[0] == 'p':
            seqs = [s + [x[1]] for s in seqs]
        elif x[0] == 'loop':
            inner = flatten_arms(x[1])
            seqs = [s + ['('] + i + [')*'] for s in seqs for i in inner]
        elif x[0] == 'arms':
            new = []
            for a in x[1]:
                for i in flatten_arms(a):
                    new += [s + i for s in seqs]
            seqs = new
    return seqs
