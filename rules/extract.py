"""E0 front end: run the rustc_private driver over /repo's current working tree (cached by
source hash) and return the directory holding one fact file per workspace crate."""
import fcntl, hashlib, os, shutil, subprocess, sys, tempfile, time

VERIF = os.path.dirname(os.path.dirname(os.path.abspath(__file__)))
REPO = os.environ.get("PV_REPO", "/repo")
CACHE = os.path.join(VERIF, ".cache")
DRIVER_DIR = os.path.join(VERIF, "driver")
DRIVER = os.path.join(DRIVER_DIR, "target", "release", "pv-driver")
CRATES = ["plonky2", "starky", "plonky2_field", "plonky2_util", "plonky2_maybe_rayon"]
# floors: non-test fn bodies counted on the pinned tree (fail closed if the driver saw less)
FLOORS = {"plonky2": 1800, "starky": 200, "plonky2_field": 400, "plonky2_util": 14, "plonky2_maybe_rayon": 6}

CONFIGS = {
    "default": {"cargo": [], "rustflags": ""},
    "nodefault": {"cargo": ["--no-default-features"], "rustflags": ""},
    "avx2": {"cargo": [], "rustflags": "-C target-feature=+avx2"},
}


def _sysroot():
    return subprocess.check_output(["rustc", "+nightly", "--print", "sysroot"], text=True).strip()


def build_driver(force=False):
    src = os.path.join(DRIVER_DIR, "src", "main.rs")
    if not force and os.path.exists(DRIVER) and os.path.getmtime(DRIVER) >= os.path.getmtime(src):
        return
    env = dict(os.environ, CARGO_NET_OFFLINE="true")
    r = subprocess.run(["cargo", "+nightly", "build", "--release", "--offline"], cwd=DRIVER_DIR, env=env,
                       stdout=subprocess.PIPE, stderr=subprocess.STDOUT, text=True)
    if r.returncode != 0:
        sys.stderr.write(r.stdout)
        raise SystemExit("pv: driver build failed")


def tree_hash(repo=None):
    repo = repo or REPO
    h = hashlib.sha256()
    files = []
    for root, dirs, fs in os.walk(repo):
        dirs[:] = sorted(d for d in dirs if d not in ("target", ".git", "node_modules"))
        for f in sorted(fs):
            if f.endswith(".rs") or f in ("Cargo.toml", "Cargo.lock", "rust-toolchain", "rust-toolchain.toml", "config.toml"):
                files.append(os.path.join(root, f))
    for p in files:
        h.update(os.path.relpath(p, repo).encode())
        h.update(b"\0")
        with open(p, "rb") as fh:
            h.update(fh.read())
        h.update(b"\0")
    with open(DRIVER, "rb") as fh:
        h.update(hashlib.sha256(fh.read()).digest())
    return h.hexdigest()[:24]


def facts_dir(config="default", repo=None, quiet=False):
    """Return (dir, info). Extracts if the cache has no entry for the current tree."""
    repo = repo or REPO
    build_driver()
    os.makedirs(CACHE, exist_ok=True)
    with open(os.path.join(CACHE, "lock"), "w") as lock:
        fcntl.flock(lock, fcntl.LOCK_EX)
        th = tree_hash(repo)
        out = os.path.join(CACHE, "facts", th, config)
        info = {"tree_hash": th, "config": config, "cached": True, "extract_s": 0.0}
        ok = all(os.path.exists(os.path.join(out, c + ".json")) for c in CRATES)
        if ok:
            try:
                os.utime(os.path.join(CACHE, "facts", th))      # least-recently-USED pruning
            except OSError:
                pass
        if not ok:
            info["cached"] = False
            t0 = time.time()
            if os.path.isdir(out):
                shutil.rmtree(out)
            os.makedirs(out)
            # a per-configuration target directory keeps the (unwrapped) third-party dependencies compiled; the workspace
            # members' fingerprints are deleted so that cargo re-runs the driver on every member (a warm target directory
            # would otherwise skip the wrapper silently); that every member was re-analysed is asserted below
            tgt = os.path.join(CACHE, "target", config)
            os.makedirs(tgt, exist_ok=True)
            for prof in os.listdir(tgt):
                fp = os.path.join(tgt, prof, ".fingerprint")
                if os.path.isdir(fp):
                    for ent in os.listdir(fp):
                        if ent.rsplit("-", 1)[0] in CRATES:
                            shutil.rmtree(os.path.join(fp, ent), ignore_errors=True)
            cfg = CONFIGS[config]
            env = dict(os.environ)
            env.update({
                "LD_LIBRARY_PATH": os.path.join(_sysroot(), "lib"),
                "CARGO_NET_OFFLINE": "true",
                "RUSTFLAGS": ("-Zmir-opt-level=0 -Awarnings " + cfg["rustflags"]).strip(),
                "RUSTC_WORKSPACE_WRAPPER": DRIVER,
                "PV_FACTS_DIR": out,
                "CARGO_TARGET_DIR": tgt,
            })
            env.pop("RUSTC_WRAPPER", None)
            cmd = ["cargo", "+nightly", "check", "--offline", "--workspace"] + cfg["cargo"]
            r = subprocess.run(cmd, cwd=repo, env=env, stdout=subprocess.PIPE, stderr=subprocess.STDOUT, text=True)
            if r.returncode != 0 or any(not os.path.exists(os.path.join(out, c + ".json")) for c in CRATES):
                # fall back to a cold build once (a corrupted or stale shared target directory must never decide a verdict)
                shutil.rmtree(tgt, ignore_errors=True)
                shutil.rmtree(out, ignore_errors=True)
                os.makedirs(out)
                r = subprocess.run(cmd, cwd=repo, env=env, stdout=subprocess.PIPE, stderr=subprocess.STDOUT, text=True)
            info["extract_s"] = round(time.time() - t0, 1)
            if r.returncode != 0:
                shutil.rmtree(out, ignore_errors=True)
                sys.stderr.write(r.stdout[-6000:])
                raise SystemExit("pv: cargo check of /repo failed (the tree does not compile); no verdict")
            missing = [c for c in CRATES if not os.path.exists(os.path.join(out, c + ".json"))]
            if missing:
                shutil.rmtree(out, ignore_errors=True)
                raise SystemExit("pv: driver wrote no facts for %s" % missing)
            if not quiet:
                sys.stderr.write("pv: extracted facts for tree %s [%s] in %.1fs\n" % (th, config, info["extract_s"]))
            # prune old cache entries (keep 4 most recent trees)
            base = os.path.join(CACHE, "facts")
            ents = sorted((os.path.getmtime(os.path.join(base, e)), e) for e in os.listdir(base))
            for _, e in ents[:-24]:
                shutil.rmtree(os.path.join(base, e), ignore_errors=True)
        return out, info
