"""C03 - accepted proofs are bound to each of their elements and to their circuit (structural clauses).

R03.1 no dead proof field: every leaf field of the proof type family is read by a *checking* use in the verifier
      closure (flows into an absorption, an Err-guard or a Merkle verification)
R03.2 every length is pinned (= R18.2)            R03.3 FRI obligation table (= R05.1)
R03.4 transcript completeness is decided under C04 (cross reference only)
R03.6 the preprocessed commitment comes from the verifier data; the three proof caps are handed to FRI
R03.7 compressed verification shares the final verifier and pins the public-input count
"""
from . import flow, ob, pins, tables_fri, transcript, cha as cha_mod
from .facts import parse_path


def leaf_atoms(F, adt_path, out, seen=(), skip=()):
    a = F.adts.get(adt_path)
    if a is None or a['kind'] != 'struct' or adt_path in seen:
        return
    short = adt_path.split('::')[-1]
    for f, t, _ in a['variants'][0]['f']:
        if (short, f) in skip:
            continue
        # nested workspace structs
        nested = None
        for cand in F.adts:
            if cand in t and F.adts[cand]['kind'] == 'struct' and F.adts[cand]['crate'] in ('plonky2', 'starky') and cand.split('::')[-1] not in ('MerkleCap', 'PolynomialCoeffs', 'MerkleProof', 'HashOut'):
                if nested is None or len(cand) > len(nested):
                    nested = cand
        if nested and nested != adt_path:
            out.append(('F:%s.%s' % (short, f), True))
            leaf_atoms(F, nested, out, seen + (adt_path,), skip)
        else:
            out.append(('F:%s.%s' % (short, f), False))


def run(F, ck, tier):
    E = ob.Engine(F, ck)
    C = cha_mod.CHA(F)
    ck.rule('R03.1', 'no dead proof field: each leaf field of ProofWithPublicInputs/Proof/OpeningSet/FriProof/FriQueryRound/FriInitialTreeProof/FriQueryStep/MerkleProof reaches an absorption, an Err-guard or a Merkle check in the closure of verify')
    ck.rule('R03.2', 'every vector/cap/option length of the proof is pinned for equality by an Err-guard (shared with R18.2)')
    ck.rule('R03.3', 'FRI verifier obligation table (shared with R05.1): PoW, query count, every round, every oracle Merkle path, fold consistency, final polynomial')
    ck.rule('R03.6', 'the FRI call receives the preprocessed cap from the verifier data and the three caps of the proof, all openings and the challenges')
    ck.rule('R03.7', 'compressed verification: public-input count pinned, shared challenge derivation and final verifier')
    # ---- R03.1
    root = F.one('plonk::verifier::verify', crate='plonky2')
    if root is None:
        ck.ob('R03.1', 'anchor', False, 'ANCHOR-MISSING plonk::verifier::verify')
    else:
        def inl(c, d, ev):
            fn = F.fns.get(c)
            if fn is None:
                return C.targets(c, d) if parse_path(c)[1] in ('hash_or_noop', 'two_to_one') else None
            if fn.crate not in ('plonky2',):
                return None
            if fn.file.endswith('iop/challenger.rs') and parse_path(c)[1] in transcript.OBS | transcript.SQ:
                return None
            return fn
        fl = flow.Flow(F, root, inline=inl, depth=8)
        checked = flow.EMPTY
        nsinks = 0
        for e in fl.events:
            if e.kind == 'guard':
                checked = checked | flow.flat(e.val)
                nsinks += 1
            elif e.kind == 'call' and e.callee:
                o, n, _ = parse_path(e.callee)
                if o in transcript.CH_OWNERS and n in transcript.OBS:
                    for a in e.args:
                        checked = checked | flow.flat(a)
                    nsinks += 1
        leaves = []
        leaf_atoms(F, 'plonky2::plonk::proof::ProofWithPublicInputs', leaves)
        n = 0
        for atom, is_container in leaves:
            n += 1
            ok = atom in checked
            ck.ob('R03.1', 'live:' + atom[2:], ok, ('proof field %s is never read by a checking use (absorption, Err-guard, Merkle check) in the verifier: changing it cannot be detected' % atom[2:]) if not ok else 'reaches a check', '%s:%d' % (root.file, root.line))
        ck.floor('R03.1', 'leaf fields of the proof type family', n, 24)
        ck.floor('R03.1', 'checking sinks in the verifier closure', nsinks, 30)
    # ---- R03.2
    pins.check(F, ck, 'R03.2', labels={'plonk'}, floor=20)
    # ---- R03.3
    for spec in tables_fri.NATIVE:
        E.check('R03.3', spec)
    # ---- R03.6
    E.check('R03.6', dict(id='plonk.fri_call', fn='plonk::verifier::verify_with_challenges', kind='try', callee='verify_fri_proof',
                         src=['F:VerifierOnlyCircuitData.constants_sigmas_cap', 'F:Proof.wires_cap', 'F:Proof.plonk_zs_partial_products_cap', 'F:Proof.quotient_polys_cap',
                              'F:Proof.opening_proof', 'F:Proof.openings', 'c:to_fri_openings', 'F:ProofChallenges.fri_challenges', 'c:get_fri_instance', 'F:ProofChallenges.plonk_zeta',
                              'F:CommonCircuitData.fri_params'],
                         ctx={'noloop': True, 'uncond': True}, why='FRI binds all four oracles (preprocessed cap from the verifier data, not the proof) to the openings at zeta'))
    E.check('R03.6', dict(id='plonk.quotient_identity', fn='plonk::verifier::verify_with_challenges', kind='guard',
                         src=['c:eval_vanishing_poly', 'F:OpeningSet.quotient_polys', 'F:ProofChallenges.plonk_zeta', 'c:reduce_with_powers'],
                         ctx={'uncond': True, 'loop': ['F:OpeningSet.quotient_polys']}, why='vanishing(zeta) == Z_H(zeta) t(zeta) for every challenge'))
    E.check('R03.6', dict(id='plonk.vanishing_inputs', fn='plonk::verifier::verify_with_challenges', kind='call', callee='eval_vanishing_poly',
                         src=['F:OpeningSet.constants', 'F:OpeningSet.wires', 'F:OpeningSet.plonk_zs', 'F:OpeningSet.plonk_zs_next', 'F:OpeningSet.lookup_zs', 'F:OpeningSet.lookup_zs_next',
                              'F:OpeningSet.partial_products', 'F:OpeningSet.plonk_sigmas', 'p:public_inputs_hash', 'F:ProofChallenges.plonk_betas', 'F:ProofChallenges.plonk_gammas',
                              'F:ProofChallenges.plonk_alphas', 'F:ProofChallenges.plonk_deltas', 'F:ProofChallenges.plonk_zeta'],
                         why='every opening and every challenge enters the vanishing evaluation'))
    E.check('R03.6', dict(id='plonk.verify.path', fn='plonk::verifier::verify', kind='call', callee='verify_with_challenges',
                         src=['F:ProofWithPublicInputs.proof', 'c:get_public_inputs_hash', 'c:get_challenges', 'p:verifier_data', 'p:common_data'], why='verify = validate, derive challenges, verify_with_challenges'))
    E.check('R03.6', dict(id='plonk.challenges.digest', fn='plonk::verifier::verify', kind='call', callee='get_challenges',
                         src=['F:VerifierOnlyCircuitData.circuit_digest', 'c:get_public_inputs_hash', 'p:common_data'], why='challenges bound to this circuit digest and these public inputs'))
    # ---- R03.7
    cv = [f for f in F.find('CompressedProofWithPublicInputs::verify', crate='plonky2') if not f.trait]
    if len(cv) != 1:
        ck.ob('R03.7', 'anchor', False, 'ANCHOR-MISSING CompressedProofWithPublicInputs::verify')
    else:
        fl = flow.Flow(F, cv[0])
        ok = any(e.kind == 'guard' and any(a.endswith('.public_inputs') for a in e.eq_pins) for e in fl.events)
        ck.ob('R03.7', 'pin:compressed:public_inputs', ok, 'compressed verification pins the number of public inputs' if ok else
              'CompressedProofWithPublicInputs::verify no longer compares public_inputs.len() with the circuit: hash_no_pad gives [a], [a,0], [a,0,0] the same digest, so dropped/duplicated zero public inputs are accepted', '%s:%d' % (cv[0].file, cv[0].line))
        E.check('R03.7', dict(id='compressed.final_verifier', fn=cv[0].d, kind='call', callee='verify_with_challenges',
                              src=['c:decompress', 'c:get_inferred_elements', 'c:get_challenges', 'c:get_public_inputs_hash', 'p:verifier_data', 'p:common_data'],
                              why='compressed verification decompresses with the inferred elements and ends in the same verify_with_challenges'))
        # the shape of the compressed proof itself is not validated at all: known finding D3 (also a C03 matter: surplus components are accepted)
        vnames = {'validate_proof_with_pis_shape', 'validate_compressed_proof_shape', 'validate_compressed_proof_with_pis_shape', 'validate_proof_shape'}
        has = any(e.kind == 'call' and e.name in vnames for e in fl.events)
        ck.ob('R03.2', 'pin:compressed:shape-unvalidated', has, 'compressed proof shape validated' if has else
              'no length of CompressedProof / CompressedFriProof / CompressedFriQueryRounds is pinned: surplus components (an extra sibling, an extra map entry) are accepted, missing ones panic', '%s:%d' % (cv[0].file, cv[0].line))
    # ---- R03.9 Merkle verification ends in the comparison with the cap (shared with C12)
    ck.rule('R03.9', 'every Merkle path check ends in a comparison of the recomputed digest with the cap entry, on every path length (R12.3 of C12): without it the leaf data of that oracle is not bound to the commitment')
    from . import c12, report
    c12.run(F, report.FilterProxy(ck, {'R12.3': 'R03.9'}), tier)
    # ---- R03.10 digests are absorbed whole (shared with C04)
    ck.rule('R03.10', 'the digest encoders and absorbing primitives through which caps and hashes enter the transcript drop nothing (encoder / primitive clauses of R04.6 of C04): bytes of a digest that are not absorbed are bound by no challenge')

    class _Enc:
        def __init__(self, ck):
            self.ck = ck
            self.decided, self.undecided = [], []
        notes = property(lambda self: self.ck.notes)

        def rule(self, *a):
            pass

        def observe(self, *a):
            pass

        def floor(self, *a):
            pass

        def ob(self, rule, key, ok, detail='', loc=None):
            if rule == 'R04.6' and key.startswith(('encoder:', 'primitive:')):
                return self.ck.ob('R03.10', key, ok, detail, loc)
    from . import c04 as _c04
    _c04.whole_absorptions(F, _Enc(ck), {})
    # ---- R03.8 circuit digest construction
    ck.rule('R03.8', 'the circuit digest that seeds every transcript is computed from the preprocessed cap, the (padded-hashed, because variable-length) domain separator and the degree')
    tb = [f for f in F.find('CircuitBuilder::try_build_with_options', crate='plonky2')]
    if len(tb) != 1:
        ck.ob('R03.8', 'anchor', False, 'ANCHOR-MISSING CircuitBuilder::try_build_with_options')
    else:
        flb = flow.Flow(F, tb[0], opaque=('CircuitBuilder',))
        dv = None
        for e in flb.events:
            if e.kind == 'struct' and e.extra and e.extra[0] == 'VerifierOnlyCircuitData' and 'circuit_digest' in (e.val or {}):
                dv = (e, flow.flat(e.val['circuit_digest']))
        if dv is None:
            ck.ob('R03.8', 'anchor:literal', False, 'ANCHOR-MISSING: no VerifierOnlyCircuitData { circuit_digest, .. } literal in try_build_with_options', '%s:%d' % (tb[0].file, tb[0].line))
        else:
            e, v = dv
            for key, atom, why in (('digest.hash', 'c:hash_no_pad', 'the digest is a hash of its parts'),
                                   ('digest.cap', 'c:flatten', 'the preprocessed (constants + sigmas) cap is part of the digest'),
                                   ('digest.degree', 'c:log2_strict', 'the degree is part of the digest'),
                                   ('digest.separator-padded', 'c:hash_pad', 'the domain separator has variable length and is hashed WITH padding: without it separators [a] and [a, 0] (and circuits differing only in trailing zeros) give the same circuit digest, hence the same challenges')):
                ok = flow.has_call(v, atom[2:])
                ck.ob('R03.8', key, ok, why if ok else 'MISSING in the circuit digest computed by %s: %s' % (tb[0].qual, why), e.loc())
    ck.decided += ['every proof field reaches a checking use', 'every length pinned', 'all FRI checks present, propagated, fed by the right data, over whole sequences', 'preprocessed cap from verifier data', 'compressed path pins the public-input count and shares the verifier']
    ck.undecided += ['that every VALUE change is rejected (Fiat-Shamir + collision resistance: probabilistic)', 'transcript completeness is decided by the C04 check']
    return ('Decides structural necessary conditions of C03: no proof field is dead in the verifier, every length is pinned, every FRI/PLONK check exists and is fed by the proof data it must bind, '
            'the preprocessed commitment comes from the verifier data. Known finding D3: the compressed form has no shape validation.')
