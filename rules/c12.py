"""C12 - Merkle commitments open only to the committed leaf at the committed position (structural clauses).

R12.1 init typestate: buffers obtained with capacity_up_to_mut(v, n) are filled, and v.set_len(m) uses the same length expression
R12.2 every MaybeUninit slot is written: fill_subtree writes both child digests; fill_digests_buf writes every cap slot in both branches;
      only the reviewed unsafe blocks exist in the tree files
R12.3 position binding: all siblings consumed, two_to_one argument order swapped by the index bit, final comparison with the cap
      entry at the shifted index; circuit twins end in an unconditional connect on the selected cap entry
R12.4 one leaf-digest function: every leaf -> digest conversion (tree construction incl. the all-cap case, batch tree, verifier,
      circuit, path decompression) is hash_or_noop, whose no-op threshold is measured in bytes against the hasher's own HASH_SIZE
"""
from . import flow, ob, tables_merkle, exprs
from .facts import walk, callee, parse_path, kids

REVIEWED_UNSAFE = {
    ('capacity_up_to_mut', 'hash/merkle_tree.rs'): 'slice::from_raw_parts_mut over the spare capacity, length checked by the assert above',
    ('MerkleTree::new', 'hash/merkle_tree.rs'): 'set_len after fill_digests_buf initialised both buffers',
    ('BatchMerkleTree::new', 'hash/batch_merkle_tree.rs'): 'set_len after the per-level fill',
}


def set_len_rule(F, ck, q, crate='plonky2'):
    fns = [f for f in F.find(q, crate=crate) if not f.trait]
    if len(fns) != 1:
        ck.ob('R12.1', 'anchor:' + q, False, 'ANCHOR-MISSING ' + q)
        return
    fn = fns[0]
    caps = {}     # vec name -> [len exprs]
    sets = {}
    fill_idx = None
    order = []
    for i, n in enumerate(walk(fn.body)):
        if n.get('k') == 'Call' and parse_path(callee(n) or '')[1] == 'capacity_up_to_mut' and len(n['a']) == 2:
            v = exprs.render(n['a'][0])
            caps.setdefault(v, []).append((exprs.render(n['a'][1]), i))
        elif n.get('k') == 'MCall' and n['n'] == 'set_len':
            v = exprs.render(n['r'])
            sets.setdefault(v, []).append((exprs.render(n['a'][0]), i, n))
        elif n.get('k') == 'Call' and parse_path(callee(n) or '')[1] in ('fill_digests_buf', 'fill_subtree'):
            order.append(i)
    for v, lst in caps.items():
        for (ln, i) in lst:
            s = sets.get(v, [])
            match = [x for x in s if x[0] == ln and x[1] > i]
            filled = any(i < j for j in order) and (not match or any(j < match[0][1] for j in order))
            ok = bool(match) and filled
            ck.ob('R12.1', 'set_len:%s:%s:%s' % (fn.qual, v, ln), ok, 'capacity_up_to_mut(%s, %s) ... fill ... %s.set_len(%s)' % (v, ln, v, ln) if ok else
                  '%s obtains an uninitialised buffer of length `%s` from %s but %s' % (fn.qual, ln, v, ('sets the length to %s' % [x[0] for x in s]) if s and not match else 'never fills it before set_len' if match else 'never calls set_len'), '%s:%d' % (fn.file, fn.line))
    ck.ob('R12.1', 'nonempty:' + fn.qual, len(caps) >= 2, '%d uninitialised buffers tracked' % len(caps))


def run(F, ck, tier):
    E = ob.Engine(F, ck)
    ck.rule('R12.1', 'uninit -> filled -> set_len with the same length expression')
    ck.rule('R12.2', 'every MaybeUninit slot written; unsafe confined to the reviewed blocks')
    ck.rule('R12.3', 'Merkle verification binds position and ends in a comparison / connect with the cap (native + circuit)')
    ck.rule('R12.4', 'a single leaf-digest function everywhere; its no-op threshold is in bytes of this hasher')
    set_len_rule(F, ck, 'MerkleTree::new')
    set_len_rule(F, ck, 'BatchMerkleTree::new')
    # ---- R12.2
    E.check('R12.2', dict(id='subtree.left', fn='hash::merkle_tree::fill_subtree', crate='plonky2', kind='call', callee='write', src=['c:fill_subtree', 'p:leaves', 'c:join'], ctx={}, why='left child digest stored'))
    fs = F.one('hash::merkle_tree::fill_subtree', crate='plonky2')
    if fs is not None:
        writes = [n for n in walk(fs.body) if n.get('k') == 'MCall' and n['n'] == 'write']
        recv = sorted({exprs.render(n['r']) for n in writes if 'MaybeUninit' in (fs.ty(n['r'], adjusted=True) or fs.ty(n['r']) or '')})
        ck.ob('R12.2', 'subtree.both_written', len(recv) == 2, 'both child digest slots written (%s)' % recv if len(recv) == 2 else
              'fill_subtree writes %s: one of the two MaybeUninit child-digest slots stays uninitialised before set_len' % recv, '%s:%d' % (fs.file, fs.line))
        E.check('R12.2', dict(id='subtree.ret', fn='hash::merkle_tree::fill_subtree', crate='plonky2', kind='ret', src=['c:two_to_one', 'c:fill_subtree', 'c:hash_or_noop', 'p:leaves'], why='node digest = two_to_one(left, right); leaf digest = hash_or_noop(leaf)'))
    fd = F.one('hash::merkle_tree::fill_digests_buf', crate='plonky2')
    if fd is not None:
        fl = flow.Flow(F, fd)
        w = [e for e in fl.events if e.kind == 'call' and e.name == 'write']
        in_then = [e for e in w if any(fr[0] == 'if' and fr[3] is True for fr in e.ctx)]
        in_rest = [e for e in w if e not in in_then]
        ok = len(in_then) >= 1 and len(in_rest) >= 1 and all(e.in_loop() for e in w)
        ck.ob('R12.2', 'digests_buf.cap_written', ok, 'cap slots written in the all-cap branch and in the general branch, inside for_each over all slots' if ok else
              'fill_digests_buf no longer writes every cap slot in both branches (writes: %d in the all-cap branch, %d otherwise)' % (len(in_then), len(in_rest)), '%s:%d' % (fd.file, fd.line))
    # unsafe census
    n_unsafe = 0
    for fn in F.fns.values():
        if fn.crate != 'plonky2' or not (fn.file.endswith('hash/merkle_tree.rs') or fn.file.endswith('hash/batch_merkle_tree.rs') or fn.file.endswith('hash/merkle_proofs.rs') or fn.file.endswith('hash/path_compression.rs')):
            continue
        blocks = [x for x in walk(fn.body) if x.get('k') == 'Block' and x.get('unsafe')]
        if not blocks:
            continue
        n_unsafe += len(blocks)
        key = (fn.qual, '/'.join(fn.file.split('/')[-2:]))
        rv = REVIEWED_UNSAFE.get(key)
        ck.ob('R12.2', 'unsafe:%s' % fn.qual, rv is not None, ('reviewed: ' + rv) if rv else 'new unsafe block in %s (%s): the race-freedom / initialisation argument of the tree code rests on safe disjoint &mut slices' % (fn.qual, fn.file), blocks[0].get('s'))
    ck.floor('R12.2', 'unsafe blocks in the Merkle files', n_unsafe, 3)
    # ---- R12.3
    for spec in tables_merkle.NATIVE + tables_merkle.CIRCUIT:
        spec = dict(spec)
        spec.setdefault('crate', 'plonky2')
        E.check('R12.3', spec)
    vb = F.one('hash::merkle_proofs::verify_batch_merkle_proof_to_cap', crate='plonky2')
    if vb is not None:
        ok = False
        for n in walk(vb.body):
            if n.get('k') == 'If' and 'el' in n:
                def t2o(b):
                    for x in walk(b):
                        if x.get('k') == 'Call' and parse_path(callee(x) or '')[1] == 'two_to_one' and len(x['a']) == 2:
                            return [exprs.render(a) for a in x['a']]
                    return None
                a, b = t2o(n['th']), t2o(n['el'])
                if a and b:
                    # the condition must derive from the leaf index (checked on the data flow, not on a variable name)
                    flc = flow.Flow(F, vb)
                    cdeps = flow.EMPTY
                    for e_ in flc.events:
                        if e_.kind == 'call' and e_.name == 'two_to_one':
                            for fr_ in e_.ctx:
                                if fr_[0] == 'if':
                                    cdeps = cdeps | flow.flat(fr_[1])
                    ok = a == list(reversed(b)) and a[0] != a[1] and flow.has_param(cdeps, 'leaf_index')
        ck.ob('R12.3', 'merkle.swap', ok, 'two_to_one(sibling, current) when the index bit is 1, two_to_one(current, sibling) otherwise' if ok else
              'verify_batch_merkle_proof_to_cap no longer orders the two_to_one arguments by the index bit: the path does not bind the leaf position', '%s:%d' % (vb.file, vb.line))
        fl = flow.Flow(F, vb, lits=True)
        g = [e for e in fl.events if e.kind == 'guard']
        idx_ok = any(flow.has_param(e.val, 'leaf_index') and flow.has_param(e.val, 'merkle_cap') for e in g)
        ck.ob('R12.3', 'merkle.cap_index', idx_ok, 'final comparison indexes the cap with the remaining bits of leaf_index' if idx_ok else 'final guard does not select the cap entry by leaf_index', '%s:%d' % (vb.file, vb.line))
        # the cap entry is selected by the remaining index bits themselves: an index that also depends on the cap (masking with
        # cap.len() - 1, reducing modulo its length) accepts leaf_index + k * cap.len() for the same path
        fli = flow.Flow(F, vb, track_idx=True)
        capidx = [e for e in fli.events if e.kind == 'index' and flow.has_param(e.recv, 'merkle_cap')]
        okc = bool(capidx) and all(flow.has_param(e.args[0], 'leaf_index') and not flow.has_param(e.args[0], 'merkle_cap') for e in capidx)
        ck.ob('R12.3', 'merkle.cap_index_exact', okc, 'the cap is indexed by the remaining bits of leaf_index alone' if okc else
              'verify_batch_merkle_proof_to_cap selects the cap entry with an index that %s: several leaf indices are accepted for one authentication path' %
              ('also depends on the cap itself (masked / reduced by its length)' if capidx else 'is no longer derived from leaf_index'), capidx[0].loc() if capidx else '%s:%d' % (vb.file, vb.line))
    # ---- R12.5 representation independence
    ck.rule('R12.5', 'raw field representation (to_noncanonical_u64, GoldilocksField.0) is read only by the Poseidon arithmetic kernels: digests, leaves and encodings are functions of the field VALUE')
    raw = 0
    for fn in F.fns.values():
        if fn.crate not in ('plonky2', 'starky') or fn.body is None:
            continue
        allowed = '/hash/poseidon' in fn.file or '/hash/arch/' in fn.file
        seen_here = set()
        for n in walk(fn.body):
            what = None
            if n.get('k') == 'MCall' and n.get('n') == 'to_noncanonical_u64':
                what = 'to_noncanonical_u64'
            elif n.get('k') == 'Field' and n.get('n') == '0' and (fn.ty(n['e']) or '').replace('&', '').strip().endswith('GoldilocksField'):
                what = 'GoldilocksField.0'
            if what is None:
                continue
            raw += 1
            if allowed or what in seen_here:
                continue
            seen_here.add(what)
            ck.ob('R12.5', 'raw-repr:%s:%s' % (fn.qual, what), False, '%s reads the raw (possibly non-canonical) representation of a field element with %s: equal field values can then give different bytes / digests' % (fn.qual, what), n.get('s'))
    ck.ob('R12.5', 'raw-repr:confined', True, '%d raw-representation reads, all inside hash/poseidon*.rs / hash/arch' % raw)
    ck.floor('R12.5', 'raw-representation reads seen (the rule matches its positive examples)', raw, 4)
    # ---- R12.4
    sites = 0
    FILES = ('hash/merkle_tree.rs', 'hash/batch_merkle_tree.rs', 'hash/merkle_proofs.rs', 'hash/path_compression.rs')
    for fn in F.fns.values():
        if fn.crate != 'plonky2' or not fn.file.endswith(FILES):
            continue
        for n in walk(fn.body):
            if n.get('k') in ('Call', 'MCall'):
                nm = parse_path(callee(n) or '')[1]
                if nm in ('hash_or_noop', 'hash_no_pad', 'hash_pad', 'hash_n_to_hash_no_pad'):
                    sites += 1
                    ok = nm == 'hash_or_noop'
                    # hashing of (digest || leaf) concatenations in batch trees also goes through hash_or_noop
                    ck.ob('R12.4', 'leafhash:%s:%s' % (fn.qual, nm), ok, 'leaf digest via hash_or_noop' if ok else
                          '%s converts leaf data to a digest with %s instead of hash_or_noop: builder and verifier (which uses hash_or_noop) disagree for leaves no longer than a digest' % (fn.qual, nm), n.get('s'))
    ck.floor('R12.4', 'leaf-digest call sites in the Merkle files', sites, 8)
    hn = [f for f in F.find('Hasher::hash_or_noop', crate='plonky2')]
    if len(hn) != 1:
        ck.ob('R12.4', 'anchor:hash_or_noop', False, 'ANCHOR-MISSING Hasher::hash_or_noop')
    else:
        fl = flow.Flow(F, hn[0], lits=True)
        conds = []
        for n in walk(hn[0].body):
            if n.get('k') == 'If':
                conds.append(n)
        ok = False
        if conds:
            c = conds[0]['c']
            names = set()
            for x in walk(c):
                if x.get('k') == 'Def':
                    names.add(x['d'].split('::')[-1])
                if x.get('k') == 'MCall':
                    names.add(x['n'])
                if x.get('k') == 'Lit':
                    names.add('lit:' + str(x['v']))
            ok = 'HASH_SIZE' in names and 'len' in names
        # the threshold itself, normalised: the leaf is copied verbatim exactly when 8 * len(inputs) <= HASH_SIZE (every byte of every
        # element fits); a threshold counted in elements or rounded up lets a leaf in whose last element is cut
        if ok:
            from . import poly as _poly
            c_ = conds[0]['c']
            neg_ = False
            while c_.get('k') == 'Un' and c_.get('op') == 'Not':
                neg_ = not neg_
                c_ = c_['e']
            if c_.get('k') == 'Bin' and c_['op'] in ('Lt', 'Le', 'Gt', 'Ge'):
                op_ = c_['op']
                if neg_:
                    op_ = {'Lt': 'Ge', 'Le': 'Gt', 'Gt': 'Le', 'Ge': 'Lt'}[op_]
                try:
                    E_ = _poly.Ev(F)
                    d_ = _poly.add(E_.ev(hn[0], c_['l'], {}, 2), E_.ev(hn[0], c_['r'], {}, 2), -1)
                    if op_ in ('Gt', 'Ge'):
                        d_ = _poly.add({}, d_, -1)
                        op_ = 'Lt' if op_ == 'Gt' else 'Le'
                    if op_ == 'Le':
                        d_ = _poly.add(d_, _poly.const(1), -1)
                    lens_ = [m for m in d_ if any(x.startswith('len(@') for x in m)]
                    want_ok = len(lens_) == 1 and len(lens_[0]) == 1 and d_.get(lens_[0]) == 8 and d_.get(('HASH_SIZE',)) == -1 and d_.get((), 0) == -1 and len(d_) == 3
                    # the same predicate spelled with a floor division: len <= HASH_SIZE / 8
                    want_ok = want_ok or (len(lens_) == 1 and len(lens_[0]) == 1 and d_.get(lens_[0]) == 1 and d_.get(('(HASH_SIZE)/(8)',)) == -1 and d_.get((), 0) == -1 and len(d_) == 3)
                    ck.ob('R12.4', 'noop.threshold.exact', want_ok, 'verbatim copy exactly when 8 * len(inputs) <= HASH_SIZE' if want_ok else
                          'Hasher::hash_or_noop copies the leaf verbatim when %s < 0, not when 8 * len(inputs) - HASH_SIZE <= 0: for a hasher whose digest is not a multiple of 8 bytes the last element of such a leaf is truncated, so different leaves share a digest' % _poly.show(d_), '%s:%d' % (hn[0].file, hn[0].line))
                except _poly.Unknown as ex_:
                    ck.observe('R12.4 noop.threshold.exact not applicable: %s' % ex_)
        ck.ob('R12.4', 'noop.threshold', ok, 'no-op threshold compares the input length with Self::HASH_SIZE (bytes of this hasher)' if ok else
              'Hasher::hash_or_noop no longer compares the input size in bytes with this hasher\'s HASH_SIZE: for a hasher with a shorter digest a leaf is copied verbatim and truncated, so different leaves share a digest', '%s:%d' % (hn[0].file, hn[0].line))
        E.check('R12.4', dict(id='noop.else_hash', fn=hn[0].d, kind='ret', src=['c:hash_no_pad', 'c:from_bytes', 'p:inputs'], why='short inputs embedded canonically, long ones hashed'))
    ck.decided += ['uninit/filled/set_len typestate', 'all slots written', 'position binding and final cap comparison (native + circuit)', 'one leaf-digest function with a byte threshold']
    ck.undecided += ['equality of the cap with the level-by-level definition (values)', 'sibling index arithmetic in merkle_tree_prove (numeric)', 'compressed multi-proof equivalence (C16)']
    return 'Decides structural necessary conditions of C12. Value-level equalities and index arithmetic are not decided.'
