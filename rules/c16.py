"""C16 - proof compression is lossless and verification-equivalent (structural clauses).

R16.1 verbatim carriage: every non-query field of compress / decompress results is the same-named field of the input
R16.2 shared path: decompress and compressed verify run get_challenges -> get_inferred_elements -> decompress; compressed verify ends in the
      same verify_with_challenges; compress takes its indices from the proof's own challenges
R16.3 the arity schedule is traversed in order and completely (layer i of the schedule is layer i of the proof)
R16.4 get_inferred_elements replays the verifier's query-round walk: the domain-walk calls receive the same definitions
"""
from . import flow, ob, defrender
from .facts import walk, callee, parse_path, kids
from .ob import iter_chain_names, PARTIAL


def carriage(F, ck, q, exempt, crate='plonky2'):
    fns = [f for f in F.find(q, crate=crate) if not f.trait]
    if len(fns) != 1:
        ck.ob('R16.1', 'anchor:' + q, False, 'ANCHOR-MISSING %s (%d)' % (q, len(fns)))
        return
    fn = fns[0]
    fl = flow.Flow(F, fn)
    st = [e for e in fl.events if e.kind == 'struct' and not e.stack]
    if not st:
        ck.ob('R16.1', 'literal:' + fn.qual, False, '%s no longer builds its result with a struct literal' % fn.qual)
        return
    e = st[-1]
    n = 0
    for f, v in e.val.items():
        if f in exempt:
            continue
        n += 1
        srcs = set()
        for a in flow.flat(v):
            if a.startswith('p:self.'):
                srcs.add(a[7:].replace('[]', '').split('.')[0])
        calls = {a for a in flow.flat(v) if a.startswith('c:') and a.split('::')[-1] not in ('clone',)}
        ok = srcs == {f} and not calls
        ck.ob('R16.1', 'verbatim:%s:%s' % (fn.qual, f), ok, 'carried verbatim' if ok else 'field %s of the %s result is built from %s %s instead of the input\'s %s unchanged' % (f, fn.qual, sorted(srcs) or 'nothing of self', sorted(calls)[:2], f), e.loc())
    ck.ob('R16.1', 'fields:' + fn.qual, n >= 1, '%d verbatim fields' % n)


def uniform_arity(F, ck, rule):
    """no product of the position in the FRI arity schedule with the arity at that position (a uniform-arity assumption)"""
    # the schedule is never assumed uniform: no product of the position in the schedule with the arity at that position
    nun = 0
    for fn in sorted(F.fns.values(), key=lambda f: f.qual):
        if fn.crate != 'plonky2' or fn.body is None:
            continue
        for lp in walk(fn.body):
            # `for (i, &a) in <..reduction_arity_bits..>.iter().enumerate()` or the closure form `.enumerate().map(|(i, &bits)| ..)`
            cands = []
            if lp.get('k') == 'For' and any(x.get('n') == 'reduction_arity_bits' or x.get('n') == 'arity_bits' for x in walk(lp['it']) if x.get('k') in ('Field', 'Local')) \
                    and 'enumerate' in iter_chain_names(lp['it']):
                cands.append((lp['p'], lp['b']))
            if lp.get('k') == 'MCall' and lp.get('n') in ('map', 'for_each', 'scan', 'flat_map') and 'enumerate' in iter_chain_names(lp['r']) \
                    and any(x.get('n') in ('reduction_arity_bits', 'arity_bits') for x in walk(lp['r']) if x.get('k') in ('Field', 'Local')):
                for a_ in lp.get('a', []):
                    if a_.get('k') == 'Closure' and a_['p']:
                        cands.append((a_['p'][0], a_['b']))
            for pat, body in cands:
                from .facts import pat_binds
                ids = [b['id'] for b in pat_binds(pat)]
                if len(ids) < 2:
                    continue
                nun += 1
                cnt, elt = ids[0], set(ids[1:])
                bad = None
                for x in walk(body):
                    if x.get('k') == 'Bin' and x['op'] == 'Mul':
                        l_ids = {y['id'] for y in walk(x['l']) if y.get('k') == 'Local'}
                        r_ids = {y['id'] for y in walk(x['r']) if y.get('k') == 'Local'}
                        if (cnt in l_ids and elt & r_ids) or (cnt in r_ids and elt & l_ids):
                            bad = x
                ck.ob(rule, 'non-uniform:%s:%s' % (fn.qual, (bad or lp).get('s', '?').split(':')[1] if False else fn.name), bad is None, 'no position x arity product' if bad is None else
                      'UNIFORM-ARITY ASSUMPTION in %s: the position in the FRI arity schedule is multiplied by the arity at that position - correct only when all layers have the same arity; '
                      'for mixed schedules (Fixed([1,2]), MinSize) indices / heights of the later layers are wrong' % fn.qual, (bad or lp).get('s'))
    ck.notes[rule + ' enumerated traversals of the arity schedule examined'] = nun


def run(F, ck, tier):
    E = ob.Engine(F, ck)
    ck.rule('R16.1', 'compress/decompress carry every non-query field verbatim')
    ck.rule('R16.2', 'plain and compressed verification share challenge derivation and the final verifier')
    ck.rule('R16.3', 'the arity schedule is never traversed reversed or partially in the proof (de)compression and verification code')
    ck.rule('R16.4', 'get_inferred_elements and fri_verifier_query_round pass the same definitions to the domain-walk calls')
    carriage(F, ck, 'Proof::compress', {'opening_proof'})
    carriage(F, ck, 'CompressedProof::decompress', {'opening_proof'})
    carriage(F, ck, 'FriProof::compress', {'query_round_proofs'})
    carriage(F, ck, 'CompressedFriProof::decompress', {'query_round_proofs'})
    # R16.2
    for who in ('verify', 'decompress'):
        fq = 'CompressedProofWithPublicInputs::' + who
        fns = [f for f in F.find(fq, crate='plonky2') if not f.trait]
        if len(fns) != 1:
            ck.ob('R16.2', 'anchor:' + fq, False, 'ANCHOR-MISSING ' + fq)
            continue
        E.check('R16.2', dict(id='path.inferred:' + who, fn=fns[0].d, kind='call', callee='get_inferred_elements', src=['c:get_challenges', 'p:common_data', 'p:self'], ctx={'uncond': True}, why='inferred elements from the proof\'s own challenges'))
        E.check('R16.2', dict(id='path.decompress:' + who, fn=fns[0].d, kind='call', callee='CompressedProof::decompress', src=['c:get_challenges', 'c:get_inferred_elements', 'F:CompressedProofWithPublicInputs.proof', 'F:CommonCircuitData.fri_params'],
                              ctx={'uncond': True}, why='decompression with challenges + inferred elements'))
        E.check('R16.2', dict(id='path.challenges:' + who, fn=fns[0].d, kind='call', callee='get_challenges', src=['c:get_public_inputs_hash', 'p:common_data', 'p:self'], ctx={'uncond': True}, why='challenges from the compressed proof itself'))
    E.check('R16.2', dict(id='path.final', fn='CompressedProofWithPublicInputs::verify', crate='plonky2', kind='ret', src=['c:verify_with_challenges', 'c:CompressedProof::decompress', 'c:get_challenges', 'p:verifier_data', 'p:common_data'], why='same final verifier as plain verification'))
    E.check('R16.2', dict(id='path.decompress.pis', fn='CompressedProofWithPublicInputs::decompress', crate='plonky2', kind='struct', src=['F:CompressedProofWithPublicInputs.public_inputs', 'c:CompressedProof::decompress'], why='public inputs carried, proof decompressed'))
    E.check('R16.2', dict(id='path.compress', fn='ProofWithPublicInputs::compress', crate='plonky2', kind='call', callee='Proof::compress', src=['c:fri_query_indices', 'F:ProofWithPublicInputs.proof', 'F:CommonCircuitData.fri_params'], ctx={'uncond': True}, why='compression uses the query indices derived from this proof'))
    # both get_challenges wrappers call the same inner function with the same fields
    for owner, pstruct, fstruct in (('ProofWithPublicInputs', 'Proof', 'FriProof'), ('CompressedProofWithPublicInputs', 'CompressedProof', 'CompressedFriProof')):
        fns = [f for f in F.find(owner + '::get_challenges', crate='plonky2') if not f.trait]
        if len(fns) != 1:
            ck.ob('R16.2', 'anchor:%s::get_challenges' % owner, False, 'ANCHOR-MISSING')
            continue
        E.check('R16.2', dict(id='wrapper:' + owner, fn=fns[0].d, kind='call', callee='get_challenges',
                              src=['p:public_inputs_hash', 'p:circuit_digest', 'p:common_data'] + ['F:%s.%s' % (pstruct, f) for f in ('wires_cap', 'plonk_zs_partial_products_cap', 'quotient_polys_cap', 'openings')]
                              + ['F:%s.%s' % (fstruct, f) for f in ('commit_phase_merkle_caps', 'final_poly', 'pow_witness')], why='every non-query field handed to the shared challenge derivation'))
    # R16.3
    nsched = 0
    FILES = ('fri/proof.rs', 'plonk/get_challenges.rs', 'fri/verifier.rs', 'fri/validate_shape.rs', 'fri/recursive_verifier.rs', 'hash/path_compression.rs', 'fri/challenges.rs', 'fri/prover.rs')
    for fn in F.fns.values():
        if fn.crate != 'plonky2' or not fn.file.endswith(FILES):
            continue
        for n in walk(fn.body):
            if n.get('k') == 'MCall' and n['n'] in ('iter', 'into_iter', 'iter_mut') or n.get('k') == 'For':
                node = n['it'] if n.get('k') == 'For' else n
                base = node
                while isinstance(base, dict) and base.get('k') in ('MCall', 'Ref', 'Un'):
                    base = base.get('r') or base.get('e')
                nm = base.get('n') if isinstance(base, dict) and base.get('k') in ('Field', 'Local') else None
                if nm != 'reduction_arity_bits':
                    continue
                nsched += 1
        # chains: find maximal method chains whose base is reduction_arity_bits
        for n in walk(fn.body):
            if n.get('k') != 'MCall':
                continue
            names = iter_chain_names(n)
            base = n
            while isinstance(base, dict) and base.get('k') in ('MCall', 'Ref', 'Un'):
                base = base.get('r') or base.get('e')
            nm = base.get('n') if isinstance(base, dict) and base.get('k') in ('Field', 'Local') else None
            if nm == 'reduction_arity_bits' and n['n'] in (PARTIAL | {'rev'}):
                ck.ob('R16.3', 'schedule-order:%s:%s' % (fn.qual, n['n']), False, '%s traverses the FRI arity schedule with .%s(): layer i of the schedule is no longer paired with layer i of the proof (tree heights / evaluation points are taken from the wrong layer for non-palindromic schedules)' % (fn.qual, n['n']), n.get('s'))
    ck.floor('R16.3', 'traversals of reduction_arity_bits in the FRI proof code', nsched, 8)
    ctrl = {'k': 'MCall', 'n': 'rev', 'r': {'k': 'MCall', 'n': 'iter', 'r': {'k': 'Field', 'n': 'reduction_arity_bits', 'e': {'k': 'Local', 'n': 'params', 'id': 0}}, 'a': []}, 'a': []}
    ck.ob('R16.3', 'positive-control', 'rev' in iter_chain_names(ctrl), 'matcher recognises a reversed traversal on a synthetic node')
    ck.ob('R16.3', 'schedule-order:none', True, 'no reversed / partial traversal of the schedule')
    # per-layer tree heights are CUMULATIVE over the schedule: height_i = height - (bits_0 + ... + bits_i)
    dc = [f for f in F.find('CompressedFriProof::decompress', crate='plonky2')]
    if len(dc) != 1:
        ck.ob('R16.3', 'anchor:decompress', False, 'ANCHOR-MISSING CompressedFriProof::decompress')
    else:
        D_ = defrender.Defs(dc[0])
        cums = []
        for n in walk(dc[0].body):
            if n.get('k') == 'Let' and 'i' in n and n['p'].get('k') == 'Bind':
                init = n['i']
                over_sched = any(x.get('k') in ('Local', 'Field') and x.get('n') == 'reduction_arity_bits' for x in walk(init))
                ty_ = dc[0].types[n['p']['t']] if n['p'].get('t') is not None else ''
                if over_sched and ty_.replace(' ', '').startswith('std::vec::Vec<usize') :
                    acc = any(x.get('k') == 'MCall' and x.get('n') in ('scan', 'fold', 'try_fold') for x in walk(init)) or any(x.get('k') == 'AssignOp' for x in walk(init))
                    cums.append((n, acc))
        for n in walk(dc[0].body):
            if n.get('k') == 'For' and any(x.get('k') in ('Local', 'Field') and x.get('n') == 'reduction_arity_bits' for x in walk(n['it'])) \
                    and any(x.get('k') == 'MCall' and x.get('n') == 'push' for x in walk(n['b'])):
                cums.append((n, any(x.get('k') == 'AssignOp' for x in walk(n['b']))))
        if not cums:
            ck.observe('R16.3 heights-cumulative not applicable: no per-layer vector derived from reduction_arity_bits found in CompressedFriProof::decompress (unrecognised form)')
            cums = [(dc[0].body, True)]
        okc = bool(cums) and all(a_ for _, a_ in cums)
        ck.ob('R16.3', 'heights-cumulative', okc, 'layer heights are a running difference over the schedule (%d derived vector(s))' % len(cums) if okc else
              ('CompressedFriProof::decompress derives a per-layer usize vector from reduction_arity_bits without accumulating over the previous layers (no scan / fold / running update): '
               'for schedules whose layers have different arities the tree heights of the later layers are wrong and decompression yields other Merkle paths than were compressed') if cums else
              'CompressedFriProof::decompress no longer derives the per-layer heights from reduction_arity_bits in a recognisable form', cums[0][0].get('s') if cums else '%s:%d' % (dc[0].file, dc[0].line))
    uniform_arity(F, ck, 'R16.3')
    # the schedule may be EMPTY (small circuits have no reduction step): indexing it with a literal panics for those circuits
    nlit, nvar = 0, 0
    for fn in sorted(F.fns.values(), key=lambda f: f.qual):
        if fn.crate != 'plonky2' or fn.body is None:
            continue
        for x in walk(fn.body):
            if x.get('k') != 'Index':
                continue
            b_ = x['e']
            while b_.get('k') in ('Ref', 'Un'):
                b_ = b_['e']
            if b_.get('k') in ('Field', 'Local') and b_.get('n') == 'reduction_arity_bits':
                if x['i'].get('k') == 'Lit':
                    nlit += 1
                    ck.ob('R16.3', 'literal-index:%s' % fn.qual, False, '%s indexes the FRI arity schedule with the literal %s: the schedule is empty for circuits without a reduction step (degree_bits <= 5 under the default strategy, Fixed(vec![])), '
                          'for which this panics on every proof' % (fn.qual, x['i'].get('v')), x.get('s'))
                else:
                    nvar += 1
    ck.ob('R16.3', 'literal-index:none', nlit == 0, 'the schedule is only indexed by loop variables (%d sites)' % nvar if nlit == 0 else '%d literal indexings' % nlit)
    ck.floor('R16.3', 'variable indexings of the arity schedule (the matcher sees its positive examples)', nvar, 4)
    # R16.4
    a = F.one('fri::verifier::fri_verifier_query_round', crate='plonky2')
    b = [f for f in F.find('CompressedProofWithPublicInputs::get_inferred_elements', crate='plonky2')]
    if a is None or len(b) != 1:
        ck.ob('R16.4', 'anchor', False, 'ANCHOR-MISSING fri_verifier_query_round / get_inferred_elements')
    else:
        b = b[0]
        WALK = {'exp_power_of_2': [0], 'compute_evaluation': [1, 2], 'reverse_bits': [1], 'primitive_root_of_unity': [0]}
        def prof(fn):
            D = defrender.Defs(fn)
            out = {}
            for n in walk(fn.body):
                if n.get('k') in ('Call', 'MCall'):
                    nm = parse_path(callee(n) or '')[1]
                    if nm in WALK:
                        args = n['a']
                        for i in WALK[nm]:
                            if i < len(args):
                                out.setdefault((nm, i), set()).add(defrender.abstract(D, args[i], 'reduction_arity_bits'))
            return out
        pa, pb = prof(a), prof(b)
        for key in sorted(set(pa) | set(pb)):
            ok = pa.get(key) == pb.get(key)
            ck.ob('R16.4', 'walk:%s#%d' % key, ok, 'same definition: %s' % sorted(pa.get(key, []))[:1] if ok else
                  'get_inferred_elements passes %s to %s (argument %d) where the verifier\'s query round passes %s: the compressed path replays a different domain walk, so decompressed proofs differ from the original' % (
                      sorted(pb.get(key, [])), key[0], key[1], sorted(pa.get(key, []))), '%s:%d' % (b.file, b.line))
        ck.floor('R16.4', 'domain-walk argument positions compared', len(set(pa) | set(pb)), 4)
        nonvac = sum(1 for v in list(pa.values()) + list(pb.values()) for r in v if 'A' in r)
        ck.ob('R16.4', 'walk:non-vacuous', nonvac >= 6, '%d renderings mention an element of the arity schedule' % nonvac if nonvac >= 6 else
              'the abstraction no longer recognises the arity-schedule element in the domain-walk arguments (%d renderings): the comparison would be vacuous' % nonvac)
    # R16.6 the compressed verification path pins the number of public inputs like the plain one
    ck.rule('R16.6', 'CompressedProofWithPublicInputs::verify compares public_inputs.len() with the circuit (the unpadded digest cannot tell [a] from [a, 0]), as validate_proof_with_pis_shape does on the plain path')
    cvq = [f for f in F.find('CompressedProofWithPublicInputs::verify', crate='plonky2') if not f.trait]
    if len(cvq) != 1:
        ck.ob('R16.6', 'anchor', False, 'ANCHOR-MISSING CompressedProofWithPublicInputs::verify')
    else:
        def _inl16(c, d, ev):
            f2 = F.fns.get(c)
            return f2 if (f2 is not None and f2.body is not None and not f2.trait and f2.file == cvq[0].file and f2.name.startswith(('validate', 'check'))) else None
        flv = flow.Flow(F, cvq[0], inline=_inl16, depth=2)
        okp = any(e.kind == 'guard' and any(a.endswith('.public_inputs') for a in e.eq_pins) for e in flv.events)
        ck.ob('R16.6', 'pin:compressed:public_inputs', okp, 'public-input count pinned on the compressed path' if okp else
              'CompressedProofWithPublicInputs::verify no longer pins public_inputs.len(): verify_compressed accepts a compressed proof with appended zero public inputs that plain verification (and decompression) reject', '%s:%d' % (cvq[0].file, cvq[0].line))
    # R16.5 the public-input digest is the same function on the plain, compressed and in-circuit paths
    ck.rule('R16.5', 'ProofWithPublicInputs::get_public_inputs_hash, CompressedProofWithPublicInputs::get_public_inputs_hash, the in-circuit verifier and the circuit builder hash the public inputs with the same (unpadded) hash function')
    from .facts import walk as _walk, parse_path as _pp, callee as _callee
    HASHES = {'hash_no_pad', 'hash_pad', 'hash_or_noop', 'hash_n_to_hash_no_pad', 'hash_n_to_m_no_pad', 'two_to_one'}
    sites = []
    for q, crate_ in (('ProofWithPublicInputs::get_public_inputs_hash', 'plonky2'), ('CompressedProofWithPublicInputs::get_public_inputs_hash', 'plonky2'), ('CircuitBuilder::verify_proof', 'plonky2')):
        c_ = [f for f in F.find(q, crate=crate_) if f.body is not None]
        if len(c_) != 1:
            ck.ob('R16.5', 'anchor:' + q, False, 'ANCHOR-MISSING %s' % q)
            continue
        hs = sorted({(_pp(_callee(x) or '')[1] or x.get('n')) for x in _walk(c_[0].body) if x.get('k') in ('Call', 'MCall') and (_pp(_callee(x) or '')[1] or x.get('n')) in HASHES})
        sites.append((c_[0], hs))
    norm = lambda h: 'hash_no_pad' if h in ('hash_no_pad', 'hash_n_to_hash_no_pad') else h
    kinds = {tuple(sorted(norm(h) for h in hs)) for _, hs in sites}
    okh = len(sites) == 3 and kinds == {('hash_no_pad',)}
    ck.ob('R16.5', 'pi-hash:siblings', okh, 'all three use the unpadded sponge hash' if okh else
          'the public-input digest is computed differently on the plain / compressed / in-circuit paths: %s - the compressed path then derives other challenges than the proof was made with (valid proofs fail to decompress or verify)' %
          '; '.join('%s: %s' % (f.qual, hs) for f, hs in sites), sites[1][0].file if len(sites) > 1 else None)
    ck.decided += ['non-query fields carried verbatim', 'shared challenge derivation and final verifier', 'schedule traversed in order', 'inference replays the verifier walk']
    ck.undecided += ['round-trip equality of values', 'index-collision handling in path compression (values)']
    return 'Decides structural necessary conditions of C16. Round-trip value equality is not decided.'
