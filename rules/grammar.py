"""Serialization grammars: the sequence tree of byte-level primitives a reader / writer function consumes / emits.

Tree nodes:  ('p', kind)            primitive read/write (u8, u16, u32, usize, bool, field, exact ...)
             ('loop', [children])   repetition
             ('alt', [[arm], ...])  alternatives (sorted)
             ('x', name)            opaque composite (serialize/deserialize of a gate / generator, registries)
Built from the typed HIR in evaluation order; helper readers/writers are expanded to primitives (memoised)."""
from .facts import kids, callee, callee_decl, parse_path, walk

ITER_METHODS = {'map', 'for_each', 'try_for_each', 'flat_map', 'filter_map', 'all', 'any', 'fold', 'try_fold'}


class Grammar:
    def __init__(self, F, side, shallow=False):
        self.F = F
        self.shallow = shallow
        self.side = side                      # 'read' or 'write'
        self.prefix = side + '_'
        self.trait = 'plonky2::util::serialization::' + ('Read' if side == 'read' else 'Write')
        self.raw = 'read_exact' if side == 'read' else 'write_all'
        self.memo = {}
        self.active = set()

    def is_io_call(self, n):
        c = callee_decl(n) or callee(n)
        if not c:
            return None
        o, name, tr = parse_path(c)
        if name == self.raw:
            return ('raw', name)
        if name.startswith(self.prefix) and (o in ('Read', 'Write', 'Buffer') or tr in ('Read', 'Write') or (callee(n) or '').startswith(self.trait)):
            return ('io', name)
        if name in ('serialize', 'deserialize') and '_serde' not in c:
            return ('serde', (o or '?'))
        if name in ('read_gate', 'write_gate', 'read_generator', 'write_generator'):
            return ('io', name)
        return None

    def expand(self, name):
        """grammar of the trait method `name` (e.g. read_usize), fully expanded"""
        if self.shallow:
            return [('p', name[len(self.prefix):] if name.startswith(self.prefix) else name)]
        if name in self.memo:
            return self.memo[name]
        if name in self.active:
            return [('x', 'rec:' + name)]
        cands = [f for f in self.F.fns.values() if f.name == name and (f.raw.get('in_trait') == self.trait)]
        if len(cands) != 1:
            return [('x', name[len(self.prefix):] if name.startswith(self.prefix) else name)]
        fn = cands[0]
        self.active.add(name)
        try:
            g = self.of_body(fn.body)
        finally:
            self.active.discard(name)
        # a function that touches raw bytes directly is a primitive named after itself
        if any(x == ('p', 'raw') for x in flatten_all(g)):
            g = [('p', name[len(self.prefix):])]
        self.memo[name] = g
        return g

    def of_fn(self, fn):
        return normalise(self.of_body(fn.body))

    def of_body(self, n):
        out = []
        self._walk(n, out)
        return out

    def _walk(self, n, out):
        if not isinstance(n, dict):
            return
        k = n.get('k')
        if k in ('Call', 'MCall'):
            io = self.is_io_call(n)
            # arguments / receiver first (evaluation order)
            if k == 'MCall':
                name = n['n']
                recv_is_iter = name in ITER_METHODS
                self._walk(n['r'], out)
                for a in n['a']:
                    if a.get('k') == 'Closure' and recv_is_iter:
                        inner = []
                        self._walk(a['b'], inner)
                        if inner:
                            out.append(('loop', inner))
                    elif a.get('k') == 'Closure':
                        # option combinators (map on Option / ok_or_else): conditional
                        inner = []
                        self._walk(a['b'], inner)
                        if inner:
                            out.append(('alt', [inner, []]))
                    else:
                        self._walk(a, out)
            else:
                for a in n['a']:
                    if a.get('k') == 'Closure':
                        inner = []
                        self._walk(a['b'], inner)
                        if inner:
                            out.append(('loop', inner))
                    else:
                        self._walk(a, out)
            if io:
                kind, name = io
                if kind == 'raw':
                    out.append(('p', 'raw'))
                elif kind == 'serde':
                    out.append(('x', 'serde'))
                else:
                    out.extend(self.expand(name))
            return
        if k in ('For', 'While', 'Loop'):
            if k == 'For':
                self._walk(n['it'], out)
            elif k == 'While':
                self._walk(n['c'], out)
            inner = []
            self._walk(n['b'], inner)
            if inner:
                if has_ret(n['b']):
                    out.extend(strip_alt(inner))     # search loop with early return: its writes happen once
                else:
                    out.append(('loop', inner))
            return
        if k == 'If':
            self._walk(n['c'], out)
            a = []
            self._walk(n['th'], a)
            b = []
            if 'el' in n:
                self._walk(n['el'], b)
            if not a and error_only(n['th']):
                out.extend(b)
                return
            if 'el' in n and not b and error_only(n['el']):
                out.extend(a)
                return
            if a or b:
                out.append(('alt', [a, b]))
            return
        if k == 'Match':
            self._walk(n['e'], out)
            arms = []
            for arm in n['arms']:
                x = []
                if 'g' in arm:
                    self._walk(arm['g'], x)
                self._walk(arm['b'], x)
                if not x and error_only(arm['b']):
                    continue          # `_ => Err(..)` / panic arm: rejects, consumes nothing
                arms.append(x)
            if any(arms):
                if len(arms) == 1:
                    out.extend(arms[0])
                else:
                    out.append(('alt', arms))
            return
        if k == 'Closure':
            inner = []
            self._walk(n['b'], inner)
            if inner:
                out.append(('loop', inner))
            return
        for c in kids(n):
            self._walk(c, out)


def error_only(n):
    """expression that only reports an error (Err(..) value, return Err, panic)"""
    from .flow import tail_is_err, diverges_with_err, panics
    return tail_is_err(n) or diverges_with_err(n) or panics(n)


def collapse_runs(g):
    """k >= 2 adjacent identical blocks of >= 2 elements become a loop (fixed repetition == loop shape)"""
    g = [(x[0], collapse_runs(x[1])) if x[0] == 'loop' else (x[0], [collapse_runs(a) for a in x[1]]) if x[0] == 'alt' else x for x in g]
    out = []
    i = 0
    n = len(g)
    while i < n:
        done = False
        for L in range(2, min(8, (n - i) // 2) + 1):
            blk = g[i:i + L]
            k = 1
            while g[i + k * L:i + (k + 1) * L] == blk:
                k += 1
            if k >= 2:
                out.append(('loop', blk))
                i += k * L
                done = True
                break
        if not done:
            out.append(g[i])
            i += 1
    # ((X)*)* produced by collapsing stays as is
    return out


def has_ret(n):
    for x in walk(n):
        if x.get('k') == 'Ret':
            return True
    return False


def strip_alt(g):
    """[alt[[X],[]]] -> X (used for search loops)"""
    out = []
    for x in g:
        if x[0] == 'alt':
            non = [a for a in x[1] if a]
            if len(non) == 1:
                out.extend(strip_alt(non[0]))
                continue
        out.append(x)
    return out


def flatten_all(g):
    for x in g:
        if x[0] in ('p', 'x'):
            yield x
        elif x[0] == 'loop':
            yield from flatten_all(x[1])
        elif x[0] == 'alt':
            for a in x[1]:
                yield from flatten_all(a)


def normalise(g):
    out = []
    for x in g:
        if x[0] == 'loop':
            inner = normalise(x[1])
            if inner:
                out.append(('loop', inner))
        elif x[0] in ('alt', 'alt!'):
            arms = [normalise(a) for a in x[1]]
            # panicking / erroring arms contribute nothing: drop empty duplicates
            if not any(arms):
                continue
            # factor common prefix
            while True:
                non = [a for a in arms if a]
                if len(non) < 2 or len(non) != len(arms):
                    break
                h = non[0][0]
                if all(a[0] == h for a in non):
                    out.append(h)
                    arms = [a[1:] for a in arms]
                else:
                    break
            if not any(arms):
                continue
            uniq = []
            for a in arms:
                if a not in uniq:
                    uniq.append(a)
            if len(uniq) == 1:
                out.extend(uniq[0])
            else:
                out.append(('alt', sorted(uniq, key=repr)))
        else:
            out.append(x)
    return out


def render(g):
    parts = []
    for x in g:
        if x[0] == 'p':
            parts.append(x[1])
        elif x[0] == 'x':
            parts.append('<' + x[1] + '>')
        elif x[0] == 'loop':
            parts.append('(' + render(x[1]) + ')*')
        else:
            parts.append('{' + ' | '.join(render(a) or 'eps' for a in x[1]) + '}')
    return ' '.join(parts)
