"""Fact loading and tree utilities over the driver's typed-HIR / MIR JSON."""
import json, os, re, functools

from . import extract


def strip_generics(s):
    """Remove every <...> group (bracket-aware), and `::` left dangling before it."""
    out = []
    depth = 0
    i = 0
    while i < len(s):
        c = s[i]
        if c == '<':
            depth += 1
        elif c == '>':
            if i > 0 and s[i - 1] == '-':  # '->'
                if depth == 0:
                    out.append(c)
            else:
                depth -= 1
        elif depth == 0:
            out.append(c)
        i += 1
    r = ''.join(out)
    r = r.replace('::::', '::')
    while r.endswith('::'):
        r = r[:-2]
    return r


def split_top(s, sep=','):
    """Split at top-level separators (outside <>, (), [])."""
    parts, depth, cur = [], 0, []
    i = 0
    while i < len(s):
        c = s[i]
        if c in '<([':
            depth += 1
        elif c in '>)]':
            if c == '>' and i > 0 and s[i - 1] == '-':
                pass
            else:
                depth -= 1
        if c == sep and depth == 0:
            parts.append(''.join(cur).strip())
            cur = []
        else:
            cur.append(c)
        i += 1
    if cur:
        parts.append(''.join(cur).strip())
    return parts


@functools.lru_cache(maxsize=None)
def parse_path(d):
    """def path -> (owner_short, name, trait_short).  owner = ADT the item hangs off, if any."""
    if d is None:
        return (None, None, None)
    s = d
    trait = None
    owner = None
    if s.startswith('<'):
        # <T as Trait>::name   or  <T>::name
        depth = 0
        for i, c in enumerate(s):
            if c == '<':
                depth += 1
            elif c == '>' and s[i - 1] != '-':
                depth -= 1
                if depth == 0:
                    inner = s[1:i]
                    rest = s[i + 1:]
                    break
        else:
            inner, rest = s, ''
        # split on top-level " as "
        depth = 0
        pos = -1
        for i in range(len(inner)):
            c = inner[i]
            if c == '<':
                depth += 1
            elif c == '>' and inner[i - 1] != '-':
                depth -= 1
            elif depth == 0 and inner.startswith(' as ', i):
                pos = i
                break
        if pos >= 0:
            t, tr = inner[:pos], inner[pos + 4:]
            trait = strip_generics(tr).split('::')[-1]
        else:
            t = inner
        owner = strip_generics(t).lstrip('&').strip().split('::')[-1]
        name = strip_generics(rest).split('::')[-1]
        return (owner, name, trait)
    m = re.search(r'<impl (.*)>::([A-Za-z_0-9]+)$', s)
    if m:
        inner = m.group(1)
        name = m.group(2)
        if ' for ' in inner:
            tr, t = inner.split(' for ', 1)
            trait = strip_generics(tr).split('::')[-1]
        else:
            t = inner
        owner = strip_generics(t).lstrip('&').strip().split('::')[-1]
        return (owner, name, trait)
    segs = strip_generics(s).split('::')
    name = segs[-1]
    if len(segs) >= 2 and segs[-2][:1].isupper():
        owner = segs[-2]
    return (owner, name, trait)


def short(d):
    return parse_path(d)[1]


def owner(d):
    return parse_path(d)[0]


def qual(d):
    """Owner::name or name."""
    o, n, _ = parse_path(d)
    return (o + '::' + n) if o else n


def ty_adt(t):
    """Type string -> short name of the outermost ADT after stripping refs / mut / Box/Vec/Option wrappers? (no: only refs)."""
    if t is None:
        return None
    t = t.strip()
    while True:
        if t.startswith('&'):
            t = t[1:].lstrip()
            if t.startswith("'"):
                t = t.split(' ', 1)[1] if ' ' in t else t
            if t.startswith('mut '):
                t = t[4:]
            continue
        break
    return strip_generics(t).split('::')[-1]


CHILD_KEYS = ('f', 'r', 'e', 'l', 'i', 'c', 'th', 'el', 'b', 'it', 'base', 'els')
LIST_KEYS = ('a', 'st')


def kids(n):
    """Child expression nodes in evaluation order."""
    if not isinstance(n, dict):
        return
    k = n.get('k')
    if k == 'Match':
        yield n['e']
        for a in n['arms']:
            if 'g' in a:
                yield a['g']
            yield a['b']
        return
    if k == 'Struct':
        for _, e in n['f']:
            yield e
        if isinstance(n.get('base'), dict):
            yield n['base']
        return
    if k == 'MCall':
        yield n['r']
        for a in n['a']:
            yield a
        return
    if k == 'Call':
        yield n['f']
        for a in n['a']:
            yield a
        return
    if k == 'Block':
        for s in n['st']:
            yield s
        if 'e' in n:
            yield n['e']
        return
    if k == 'Let':
        if 'i' in n:
            yield n['i']
        if 'els' in n:
            yield n['els']
        return
    if k == 'For':
        yield n['it']
        yield n['b']
        return
    if k == 'Closure':
        yield n['b']
        return
    for key in ('c', 'th', 'el', 'l', 'r', 'e', 'i', 'b'):
        v = n.get(key)
        if isinstance(v, dict) and 'k' in v:
            yield v
    v = n.get('a')
    if isinstance(v, list):
        for x in v:
            if isinstance(x, dict):
                yield x


def walk(n):
    stack = [n]
    while stack:
        x = stack.pop()
        yield x
        ks = list(kids(x))
        ks.reverse()
        stack.extend(ks)


def pat_binds(p):
    """All Bind nodes in a pattern."""
    if not isinstance(p, dict):
        return
    k = p.get('k')
    if k == 'Bind':
        yield p
        if 'sub' in p:
            yield from pat_binds(p['sub'])
    elif k == 'PStruct':
        for _, q in p['f']:
            yield from pat_binds(q)
    elif k in ('PTupleStruct', 'PTuple', 'POr'):
        for q in p['a']:
            yield from pat_binds(q)
    elif k == 'PRef':
        yield from pat_binds(p['p'])
    elif k == 'PSlice':
        for q in p['b']:
            yield from pat_binds(q)
        if 'm' in p:
            yield from pat_binds(p['m'])
        for q in p['a']:
            yield from pat_binds(q)


def callee(n):
    """Resolved callee def path of a Call / MCall node (impl method if resolvable), else None."""
    k = n.get('k')
    if k == 'MCall':
        return n.get('rd') or n.get('d')
    if k == 'Call':
        f = n['f']
        if f.get('k') == 'Def':
            return f.get('rd') or f.get('d')
    return None


def callee_decl(n):
    """Declared callee (trait method if a trait call)."""
    k = n.get('k')
    if k == 'MCall':
        return n.get('d')
    if k == 'Call':
        f = n['f']
        if f.get('k') == 'Def':
            return f.get('d')
    return None


def macro_of(n):
    """Outermost user-level macro the node comes from (ensure, assert, assert_eq, debug_assert, vec, ...)."""
    m = n.get('m')
    if not m:
        return None
    names = [x for x in m if not x.startswith('~') and not x.startswith('$crate')]
    return names[-1] if names else None


def in_macro(n, *names):
    m = n.get('m')
    if not m:
        return False
    return any(x in names or x.split('::')[-1] in names for x in m)


class Fn:
    __slots__ = ('d', 'name', 'crate', 'raw', 'types', 'owner', 'trait', 'body', 'params', 'file', 'line')

    def __init__(self, raw, crate, types):
        self.raw = raw
        self.d = raw['d']
        self.name = raw['name']
        self.crate = crate
        self.types = types
        self.owner = ty_adt(raw['self']) if 'self' in raw else parse_path(raw['d'])[0]
        self.trait = raw.get('trait') or raw.get('in_trait')
        self.body = raw['body']
        self.params = raw['params']
        sp = raw['s'].rsplit(':', 2)
        self.file = sp[0]
        self.line = int(sp[1])

    @property
    def qual(self):
        return (self.owner + '::' + self.name) if self.owner else self.name

    def ty(self, node, adjusted=False):
        if adjusted and 'ta' in node:
            return self.types[node['ta']]
        i = node.get('t')
        return self.types[i] if i is not None else None

    def ret_ty(self):
        i = self.raw.get('ret')
        return self.types[i] if i is not None else None

    def __repr__(self):
        return 'Fn(%s)' % self.d


_RECORD = {}
_SIGS = None


def _anchor_sigs():
    global _SIGS
    if _SIGS is None:
        p = os.path.join(os.path.dirname(os.path.abspath(__file__)), 'anchor_sigs.json')
        try:
            _SIGS = json.load(open(p))
        except Exception:
            _SIGS = {}
    return _SIGS


def save_recorded_anchors():
    if not _RECORD:
        return
    p = os.path.join(os.path.dirname(os.path.abspath(__file__)), 'anchor_sigs.json')
    try:
        cur = json.load(open(p))
    except Exception:
        cur = {}
    for k_, v_ in _RECORD.items():
        if isinstance(v_, list):
            old_ = cur.get(k_) if isinstance(cur.get(k_), list) else []
            cur[k_] = old_ + [e for e in v_ if e not in old_]
        else:
            cur[k_] = v_
    json.dump(cur, open(p, 'w'), indent=0, sort_keys=True)


class Facts:
    def __init__(self, config='default', repo=None):
        self.dir, self.info = extract.facts_dir(config, repo)
        self.fns = {}
        self.adts = {}
        self.impls = []
        self.traits = {}
        self.mir = {}
        self.mir_types = {}
        self.counts = {}
        for c in extract.CRATES:
            with open(os.path.join(self.dir, c + '.json')) as fh:
                d = json.load(fh)
            types = d['types']
            n = 0
            for f in d['fns']:
                fn = Fn(f, c, types)
                self.fns[fn.d] = fn
                if f['dk'] in ('Fn', 'AssocFn'):
                    n += 1
            self.counts[c] = n
            for a in d['adts']:
                a['crate'] = c
                self.adts[a['d']] = a
            for i in d['impls']:
                i['crate'] = c
                self.impls.append(i)
            for t in d['traits']:
                self.traits[t['d']] = t
            for m in d['mir']:
                m['crate'] = c
                m['types'] = types
                self.mir[m['d']] = m
        for c, floor in extract.FLOORS.items():
            if self.counts.get(c, 0) < floor:
                raise SystemExit('pv: driver analysed only %d fn bodies of %s (floor %d) - failing closed' % (self.counts.get(c, 0), c, floor))
        self.renamed = {}
        self._by_qual = {}
        self._by_name = {}
        for fn in self.fns.values():
            self._by_qual.setdefault(fn.qual, []).append(fn)
            self._by_name.setdefault(fn.name, []).append(fn)

    # ---- lookup
    def find(self, qual_or_suffix, crate=None, trait=None, all=False):
        """Find fns by 'Owner::name', bare 'name', or a def-path suffix like 'fri::verifier::verify_fri_proof'."""
        q = qual_or_suffix
        cands = []
        if q in self.fns:
            cands = [self.fns[q]]
        else:
            parts = q.split('::')
            if len(parts) == 2 and parts[0][:1].isupper():
                cands = list(self._by_qual.get(q, []))
            elif len(parts) == 1:
                cands = list(self._by_name.get(q, []))
            else:
                nm = parts[-1]
                for fn in self._by_name.get(nm, []):
                    sd = strip_generics(fn.d)
                    if sd.endswith('::' + q) or sd == q:
                        cands.append(fn)
                    elif fn.file.replace('/src/', '::').replace('/', '::').replace('.rs', '').endswith('::'.join(parts[:-1])) and (fn.owner is None):
                        cands.append(fn)
        if not cands and '::' in q:
            # moved item: a function that changed module (or impl block) is not an alarm - fall back to the bare name
            # (with its owner type if the query had one) when that is unique
            parts = q.split('::')
            nm = parts[-1]
            own = parts[-2] if len(parts) >= 2 and parts[-2][:1].isupper() else None
            alt = [f for f in self._by_name.get(nm, []) if (own is None and f.owner is None) or (own is not None and f.owner == own)]
            if crate:
                alt = [f for f in alt if f.crate == crate]
            if len(alt) == 1:
                cands = alt
        if crate:
            cands = [f for f in cands if f.crate == crate]
        if trait is not None:
            cands = [f for f in cands if (f.trait or '').endswith(trait)] if trait else [f for f in cands if not f.trait]
        key = '%s|%s|%s' % (q, crate or '', trait if trait is not None else '-')
        if not cands:
            # renamed item: the anchor table (rules/anchor_sigs.json, generated from the tree the rules were written against) records
            # the signature of every anchor; a function of the same crate and owner with exactly that signature and no other
            # candidate is taken to be the renamed anchor - a rename must not raise an alarm
            sig = _anchor_sigs().get(key)
            if sig is not None:
                alt = [f for f in self.fns.values() if f.crate == sig['crate'] and f.owner == sig['owner'] and f.body is not None
                       and f.name not in sig.get('siblings', []) and self.signature(f) == sig['sig']]
                alt = [f for f in alt if f.name not in self._anchor_names()]
                if len(alt) == 1:
                    cands = alt
                    self.renamed[key] = alt[0].qual
        elif len(cands) == 1 and os.environ.get('PV_RECORD_ANCHORS'):
            f = cands[0]
            _RECORD[key] = {'crate': f.crate, 'owner': f.owner, 'name': f.name, 'sig': self.signature(f)}
        if all:
            return cands
        return cands

    def renamed_callee(self, name):
        """current name(s) of workspace functions that the rule tables know as `name`, when the function of that name (and owner) no
        longer exists and exactly one function has the signature recorded for it (a renamed callee must not raise an alarm)"""
        out = []
        for sig in _anchor_sigs().get('callee:' + name, []) if isinstance(_anchor_sigs().get('callee:' + name), list) else []:
            if any(f.owner == sig['owner'] and f.crate == sig['crate'] for f in self._by_name.get(name, [])):
                continue
            alt = [f for f in self.fns.values() if f.crate == sig['crate'] and f.owner == sig['owner'] and self.signature(f) == sig['sig'] and f.name not in self._anchor_names()]
            if len(alt) == 1:
                self.renamed['callee:' + name] = alt[0].qual
                out.append(alt[0].name)
        return out[0] if out else None

    def record_callee(self, name, d):
        if os.environ.get('PV_RECORD_ANCHORS') and d in self.fns:
            f = self.fns[d]
            ent = {'crate': f.crate, 'owner': f.owner, 'name': f.name, 'sig': self.signature(f)}
            lst = _RECORD.setdefault('callee:' + name, [])
            if ent not in lst:
                lst.append(ent)

    def signature(self, f):
        ps = []
        for p in f.params:
            for b in pat_binds(p):
                ps.append(f.types[b['t']] if b.get('t') is not None else '?')
        r = f.raw.get('ret')
        return [ps, f.types[r] if isinstance(r, int) and r < len(f.types) else str(r)]

    def _anchor_names(self):
        if not hasattr(self, '_anames'):
            self._anames = {v['name'] for v in _anchor_sigs().values() if isinstance(v, dict)} & set(self._by_name)
        return self._anames

    def one(self, q, **kw):
        c = self.find(q, **kw)
        if len(c) == 1:
            return c[0]
        return None

    def adt(self, short_name, crate=None):
        r = [a for d, a in self.adts.items() if strip_generics(d).split('::')[-1] == short_name and (crate is None or a['crate'] == crate)]
        return r[0] if len(r) == 1 else None

    def adt_fields(self, short_name, crate=None):
        a = self.adt(short_name, crate)
        if not a or a['kind'] != 'struct':
            return None
        return [(n, t) for n, t, _ in a['variants'][0]['f']]

    def impls_of(self, trait_short):
        return [i for i in self.impls if strip_generics(i.get('trait', '') or '').split('::')[-1] == trait_short]

    def impl_fns(self, impl):
        """Fns defined in an impl (by impl def path)."""
        return [f for f in self.fns.values() if f.raw.get('impl') == impl['d']]

    def fns_in_file(self, path_suffix):
        return [f for f in self.fns.values() if f.file.endswith(path_suffix)]
