"""C08 - table lookups are provable exactly for pairs contained in the table (structural clauses).

R08.1 the three lookup-constraint evaluators push the same skeleton of selector-filtered constraints
R08.2 every LookupSelectors variant is used by each evaluator and produced by selectors_lookup
R08.3 the lookup term group is in the alpha combination, both lookup openings are absorbed (cross reference C02 / C04)
R08.5 lookup gate wire accessors are consumed by the evaluators and by the prover's lookup routines
R08.6 declared count: pushes == Vec::with_capacity(4 + luts + 2*sldc)
R08.7 the accumulator initialised under InitSre is the one the first Sum transition starts from (found defect D7)
R08.8 selector ranges tile the lookup block contiguously (LastLdc row = start of TransLdc; end of TransLdc = start of TransSre; end of TransSre = InitSre row)
R08.9 padding of a partially filled lookup row uses strictly fewer slots than a row has (symbolic interval)
"""
from . import flow, ob, skeleton, defrender, symint, exprs
from .facts import walk, callee, parse_path, kids

EVALS = ['check_lookup_constraints', 'check_lookup_constraints_batch', 'check_lookup_constraints_circuit']
VARIANTS = ['TransSre', 'TransLdc', 'InitSre', 'LastLdc', 'StartEnd']


def variants_in(D, n, depth=2):
    out = set()
    for x in walk(n):
        if x.get('k') == 'Def' and 'LookupSelectors::' in x.get('d', ''):
            out.add(x['d'].split('::')[-1])
        elif x.get('k') == 'Local' and depth > 0:
            d = D.defs.get(x['id'])
            if d and d[0] == 'let':
                out |= variants_in(D, d[1], depth - 1)
    return out


PAD_FNS = ['plonk::prover::set_lookup_wires', 'plonk::vanishing_poly::get_lut_poly', 'plonk::vanishing_poly::get_lut_poly_circuit']


def pad_bounds(F):
    """symbolic interval (in units of num_slots) of every `num_slots - x % num_slots` padding computation in the lookup code:
    yields (fn, let-node, (lo, hi)) | (fn, let-node, 'reason') | (fn, None, None) | (None, path, None)"""
    for q in PAD_FNS:
        sw = F.one(q, crate='plonky2')
        if sw is None:
            yield None, q, None
            continue
        D = defrender.Defs(sw)

        def is_n(x, D=D):
            if x.get('k') == 'Call' and parse_path(callee(x) or '')[1] == 'num_slots':
                return True
            if x.get('k') == 'Local':
                d = D.defs.get(x['id'])
                return bool(d and d[0] == 'let' and isinstance(d[1], dict) and any(y.get('k') == 'Call' and parse_path(callee(y) or '')[1] == 'num_slots' for y in walk(d[1])) and d[1].get('k') in ('Call', 'Cast', 'Ref'))
            return False
        cands = []
        for n in walk(sw.body):
            if n.get('k') == 'Let' and 'i' in n and n['p'].get('k') == 'Bind':
                rems = [y for y in walk(n['i']) if y.get('k') == 'Bin' and y['op'] == 'Rem' and is_n(y['r'])]
                subs = [y for y in walk(n['i']) if y.get('k') == 'Bin' and y['op'] == 'Sub' and is_n(y['l'])]
                if rems and subs:
                    cands.append(n)
        if not cands:
            yield sw, None, None
        for n in cands:
            try:
                yield sw, n, symint.ev(n['i'], is_n, None)
            except symint.Unknown as e:
                yield sw, n, str(e)


def let_polys(F, E, fn, names):
    """polynomials of the named `let` bindings of a function (lets evaluated in order, nested blocks inherit the environment)"""
    from . import poly
    out = {}

    def rec(b, env):
        if isinstance(b, list):
            for x in b:
                rec(x, env)
            return
        if not isinstance(b, dict):
            return
        if b.get('k') == 'Block':
            env = dict(env)
            for s in b['st']:
                if s.get('k') == 'Let' and 'i' in s and s['p'].get('k') == 'Bind':
                    try:
                        env[s['p']['id']] = E.ev(fn, s['i'], env, 3)
                    except poly.Unknown as ex:
                        env[s['p']['id']] = ex
                    if s['p']['n'] in names:
                        out.setdefault(s['p']['n'], []).append((env[s['p']['id']], s.get('s')))
                rec(s, env)
            if 'e' in b:
                rec(b['e'], env)
            return
        for v in b.values():
            if isinstance(v, (dict, list)):
                rec(v, env)
    rec(fn.body, {})
    return out


def lut_row_layout(F, ck):
    """R08.11: the circuit builder lays a table out over ceil(len / slots) rows counted upwards from `last_lut_row`; the generator
    that fills those rows finds the first (highest) row from the same quantities. Both are normalised to polynomials; the
    generator's  first_row - last_lut_row + 1  must be the same ceiling division as the builder's row count."""
    from . import poly
    import re
    ck.rule('R08.11', 'the lookup-table generator locates the first table row with the same ceiling division (entries per row) that the builder used to allocate the rows: first_row - last_lut_row + 1 == number of rows, as normalised polynomials')
    g = [f for f in F.find('LookupTableGenerator::run_once', crate='plonky2') if f.body is not None]
    b = [f for f in F.find('CircuitBuilder::add_all_lookups', crate='plonky2') if f.body is not None]
    if len(g) != 1 or len(b) != 1:
        ck.ob('R08.11', 'anchor', False, 'ANCHOR-MISSING LookupTableGenerator::run_once / CircuitBuilder::add_all_lookups')
        return
    E = poly.Ev(F)
    gp = let_polys(F, E, g[0], {'slot'})
    # the generator: slot = (first_row - self.row) * num_slots + slot_nb ; take the polynomial of the slot index itself, which is what
    # indexes the table, so that the rule does not depend on the name of an intermediate local
    rows = [x for x in walk(b[0].body) if x.get('k') == 'For' and x['it'].get('k') == 'Struct' and x['it'].get('d', '').endswith('Range')
            and any(y.get('k') == 'MCall' and y.get('n') == 'add_gate' for y in walk(x['b']))]
    # builder: the bound of the loop that adds LookupTableGate rows
    bvals = []
    allb = let_polys(F, E, b[0], _AllNames())
    byid = {}
    for nm, lst in allb.items():
        for v, loc in lst:
            byid.setdefault(nm, []).append(v)
    for x in rows:
        end = dict(x['it']['f']).get('end')
        if 'LookupTableGate' not in str(x['b']):
            continue
        if end.get('k') == 'Local' and end.get('n') in byid:
            v = byid[end['n']][-1]
            if not isinstance(v, Exception):
                bvals.append((v, x.get('s')))
    if not gp.get('slot') or isinstance(gp['slot'][0][0], Exception) or not bvals:
        ck.ob('R08.11', 'lut.rows', False, 'ANCHOR-MISSING: could not normalise the generator slot index (%s) or the builder row count (%d loops)' % (gp.get('slot'), len(bvals)), g[0].loc() if hasattr(g[0], 'loc') else None)
        return
    slot, sloc = gp['slot'][0]
    rowsb, bloc = bvals[0]
    # slot = (last + R - 1 - row) * S + slot_nb  with  R the row count: the coefficient structure is read off by substitution:
    # remove the known terms and what is left must be  S * R  with R a single div_ceil symbol
    txt = poly.show(slot)
    m = re.findall(r'div_ceil\(([^()]*(?:\([^()]*\)[^()]*)*), ([^()]*(?:\([^()]*\)[^()]*)*)\)', txt)
    mb = re.fullmatch(r'div_ceil\((.*), (.*)\)', poly.show(rowsb))
    ok = False
    why = ''
    if mb is None:
        why = 'the builder allocates %s table rows, which is not a ceiling division of the table length by the slots per row' % poly.show(rowsb)
    else:
        S = poly.sym('LookupTableGenerator.num_slots')
        cands = set(m)
        want = None
        for L, Sx in cands:
            R = poly.sym('div_ceil(%s, %s)' % (L, Sx))
            expect = poly.add(poly.mul(S, poly.add(poly.add(poly.add(poly.sym('LookupTableGenerator.last_lut_row'), R), poly.const(1), -1), poly.sym('LookupTableGenerator.row'), -1)), poly.sym('LookupTableGenerator.slot_nb'))
            if expect == slot and 'lut' in L and Sx == 'LookupTableGenerator.num_slots':
                want = (L, Sx)
        ok = want is not None
        if not ok:
            why = ('LUT ROW LAYOUT: the builder allocates %s rows for a table (counted upwards from last_lut_row), but the generator indexes the table with slot = %s, '
                   'which is not (last_lut_row + ceil(len(lut) / num_slots) - 1 - row) * num_slots + slot_nb: for table lengths that are not a multiple of the slots per row '
                   '(or are one) the rows are filled with other entries than the ones the lookup argument sums, and an honest proof does not verify' % (poly.show(rowsb), txt))
    ck.ob('R08.11', 'lut.rows', ok, 'generator slot index = (last_lut_row + ceil(len/slots) - 1 - row) * slots + slot_nb; builder rows = %s' % poly.show(rowsb) if ok else why, sloc)


class _AllNames:
    def __contains__(self, x):
        return True


def run(F, ck, tier):
    E = ob.Engine(F, ck)
    for r, t in (('R08.1', 'three evaluators: same skeleton of selector-filtered pushes'), ('R08.2', 'selector exhaustiveness'), ('R08.5', 'lookup gate wires consumed'),
                 ('R08.6', 'declared count of lookup constraints'), ('R08.7', 'InitSre pins the accumulator the first Sum transition reads'), ('R08.8', 'selector ranges tile the lookup block'),
                 ('R08.9', 'padding slot count bounded by the row size')):
        ck.rule(r, t)
    fns = {}
    for q in EVALS:
        c = F.find('plonk::vanishing_poly::' + q, crate='plonky2')
        if len(c) != 1:
            ck.ob('R08.1', 'anchor:' + q, False, 'ANCHOR-MISSING ' + q)
        else:
            fns[q] = c[0]
    skels = {}
    used = {}
    for q, fn in fns.items():
        D = defrender.Defs(fn)

        def classify(n, D=D):
            if n.get('k') == 'MCall' and n['n'] == 'push' and n['r'].get('k') == 'Local' and n['r']['n'] == 'constraints':
                vs = variants_in(D, n['a'][0]) - {'StartEnd'}
                if vs:
                    return '+'.join(sorted(vs))
                return 'End'
            return None
        t = skeleton.arms_tree(fn.body, classify)
        skels[q] = skeleton.render_arms(t)
        u = set()
        for x in walk(fn.body):
            if x.get('k') == 'Def' and 'LookupSelectors::' in x.get('d', ''):
                u.add(x['d'].split('::')[-1])
        used[q] = u
    ref = skels.get('check_lookup_constraints')
    WANT = 'LastLdc InitSre InitSre (End)* TransSre (TransSre TransLdc)*'
    for q in fns:
        ck.ob('R08.1', 'skeleton:' + q, skels[q] == ref, 'skeleton %s' % skels[q] if skels[q] == ref else 'lookup evaluators disagree: %s pushes [%s] but check_lookup_constraints pushes [%s]' % (q, skels[q], ref), '%s:%d' % (fns[q].file, fns[q].line))
        ck.ob('R08.1', 'argument-shape:' + q, skels[q] == WANT, 'last-LDC, init Sum, init RE, one RE end per table, RE transition, Sum+LDC transition per partial polynomial' if skels[q] == WANT else
              'lookup evaluator %s pushes [%s]; the argument needs [%s]' % (q, skels[q], WANT), '%s:%d' % (fns[q].file, fns[q].line))
        miss = set(VARIANTS) - used[q]
        ck.ob('R08.2', 'variants:' + q, not miss, 'all LookupSelectors variants used' if not miss else '%s never uses selector(s) %s' % (q, sorted(miss)), '%s:%d' % (fns[q].file, fns[q].line))
    sl = F.one('gates::selectors::selectors_lookup', crate='plonky2')
    if sl is None:
        ck.ob('R08.2', 'anchor:selectors_lookup', False, 'ANCHOR-MISSING selectors_lookup')
    else:
        prod = set()
        for x in walk(sl.body):
            if x.get('k') in ('Assign',):
                for y in walk(x['l']):
                    if y.get('k') == 'Def' and 'LookupSelectors::' in y.get('d', ''):
                        prod.add(y['d'].split('::')[-1])
        need = {'TransSre', 'TransLdc', 'InitSre', 'LastLdc'}
        ck.ob('R08.2', 'produced', need <= prod, 'selectors_lookup sets all four selector polynomials' if need <= prod else 'selectors_lookup never sets %s' % sorted(need - prod), '%s:%d' % (sl.file, sl.line))
        # R08.8 tiling
        D = defrender.Defs(sl)
        ranges = {}
        points = {}
        for n in walk(sl.body):
            if n.get('k') == 'For':
                rng = n['it']
                if rng.get('k') == 'Struct' and 'Range' in rng.get('d', ''):
                    vs = set()
                    for y in walk(n['b']):
                        if y.get('k') == 'Def' and 'LookupSelectors::' in y.get('d', ''):
                            vs.add(y['d'].split('::')[-1])
                    f = dict(rng['f'])
                    if len(vs) == 1 and 'start' in f and 'end' in f:
                        ranges[vs.pop()] = (D.render(f['start']), D.render(f['end']))
            elif n.get('k') == 'Assign' and n['l'].get('k') == 'Index':
                vs = set()
                for y in walk(n['l']):
                    if y.get('k') == 'Def' and 'LookupSelectors::' in y.get('d', ''):
                        vs.add(y['d'].split('::')[-1])
                inloop = False
                if len(vs) == 1:
                    points.setdefault(vs.pop(), []).append(D.render(n['l']['i']))
        ok = False
        detail = 'ranges %s points %s' % (ranges, points)
        if 'TransSre' in ranges and 'TransLdc' in ranges:
            init = [p for p in points.get('InitSre', []) if 'elem(' in p and 'row' not in p]
            last = [p for p in points.get('LastLdc', []) if 'elem(' in p]
            ok = ranges['TransLdc'][1] == ranges['TransSre'][0] and any(p == ranges['TransSre'][1] for p in points.get('InitSre', [])) and any(p == ranges['TransLdc'][0] for p in points.get('LastLdc', []))
        ck.ob('R08.8', 'tiling', ok, 'LastLdc row = start(TransLdc); end(TransLdc) = start(TransSre); end(TransSre) = InitSre row' if ok else
              'lookup selector ranges do not tile the block: TransLdc %s, TransSre %s, InitSre at %s, LastLdc at %s - a row of the lookup block carries no transition constraint' % (
                  ranges.get('TransLdc'), ranges.get('TransSre'), points.get('InitSre'), points.get('LastLdc')), '%s:%d' % (sl.file, sl.line))
    # R08.6 declared count
    for q, fn in fns.items():
        cap = None
        for n in walk(fn.body):
            if n.get('k') == 'Let' and n['p'].get('k') == 'Bind' and n['p']['n'] == 'constraints' and 'i' in n:
                i = n['i']
                if i.get('k') == 'Call' and parse_path(callee(i) or '')[1] == 'with_capacity':
                    cap = exprs.render(i['a'][0])
        # pushes outside loops = 4; per-table loop 1; per sldc loop 2
        sk = skels[q]
        fixed = len([x for x in sk.replace('(End)*', '').replace('(TransSre TransLdc)*', '').split() if x])
        ok = cap is not None and '4' in cap and 'luts' in cap and '2' in cap and 'num_sldc_polys' in cap and fixed == 4 and '(End)*' in sk and '(TransSre TransLdc)*' in sk
        ck.ob('R08.6', 'count:' + q, ok, 'declared capacity %s = 4 fixed + 1 per table + 2 per partial polynomial, as pushed' % cap if ok else
              '%s declares %s constraints but pushes %d fixed ones, [%s]' % (q, cap, fixed, sk), '%s:%d' % (fn.file, fn.line))
    # R08.7  (name-independent: arrays are identified by the parameter they are sliced from; the wrap-around read by its shape)
    for q, fn in fns.items():
        D = defrender.Defs(fn)
        pnames = [b_['n'] for p_ in fn.params for b_ in __import__('rules.facts', fromlist=['pat_binds']).pat_binds(p_)]

        def origin(base):
            """name of the parameter a (sliced) array local comes from"""
            n_ = base
            for _ in range(6):
                while isinstance(n_, dict) and n_.get('k') in ('Ref', 'Un', 'Index', 'Cast', 'MCall'):
                    n_ = n_.get('e') or n_.get('r')
                if not isinstance(n_, dict) or n_.get('k') != 'Local':
                    return None
                d = D.defs.get(n_['id'])
                if d is None:
                    return None
                if d[0] == 'param':
                    return n_['n']
                if d[0] != 'let':
                    return None
                n_ = d[1]
            return None
        # locals and next-row arrays = the two lookup-z parameters (3rd and 4th parameter of the three evaluators, after builder if any)
        zs_params = [p for p in pnames if 'lookup_zs' in p]
        init_idx, prev_idx = set(), set()
        for n in walk(fn.body):
            if n.get('k') == 'MCall' and n['n'] == 'push' and n['a']:
                arg = n['a'][0]
                if 'InitSre' in variants_in(D, arg):
                    for y in walk(arg):
                        if y.get('k') == 'Index' and origin(y['e']) in zs_params and y['e'].get('k') == 'Local' and D.defs.get(y['e']['id'], ('',))[0] == 'let':
                            init_idx.add((origin(y['e']), exprs.render(y['i'])))
            if n.get('k') == 'If' and 'el' in n:
                c = n['c']
                if c.get('k') == 'Bin' and c['op'] == 'Eq' and c['r'].get('k') == 'Lit' and str(c['r'].get('v')) == '0' and c['l'].get('k') == 'Local' and D.defs.get(c['l']['id'], ('',))[0] == 'for':
                    for y in walk(n['th']):
                        if y.get('k') == 'Index' and origin(y['e']) in zs_params:
                            prev_idx.add((origin(y['e']), exprs.render(y['i'])))
        # the wrap-around read is from the NEXT-row array; the init constraint is on the LOCAL-row array: compare index expressions
        pi = {i for (_, i) in prev_idx}
        ii = {i for (o, i) in init_idx}
        ok = bool(pi) and bool(ii) and pi <= ii
        ck.ob('R08.7', 'init-accumulator:' + q, ok, 'InitSre pins SLDC[%s], the value the first Sum transition reads from the zero row' % sorted(pi) if ok else
              ('%s: the initial-value constraint is on SLDC[%s] but the first Sum transition (poly == 0) starts from SLDC[%s] of the next row: that value is unconstrained and the running sum can start anywhere' % (q, sorted(ii), sorted(pi))) if (pi and ii) else
              '%s: could not locate the InitSre-filtered SLDC constraint (%s) or the wrap-around read under `<loop var> == 0` (%s)' % (q, sorted(ii), sorted(pi)), '%s:%d' % (fn.file, fn.line))
    # R08.5 wire consumption
    for q, fn in fns.items():
        fl = flow.Flow(F, fn)
        d = flow.flat(fl.ret)
        need = ['c:LookupTableGate::wire_ith_looked_inp', 'c:LookupTableGate::wire_ith_looked_out', 'c:LookupTableGate::wire_ith_multiplicity', 'c:LookupGate::wire_ith_looking_inp', 'c:LookupGate::wire_ith_looking_out']
        miss = [a for a in need if not flow.has_call(d, a[2:])]
        ck.ob('R08.5', 'wires:' + q, not miss, 'all lookup gate wires flow into the returned constraints' if not miss else '%s: wires %s never reach a constraint' % (q, [m[2:] for m in miss]), '%s:%d' % (fn.file, fn.line))
    # the prover writes the multiplicity of EVERY table entry of EVERY table, whatever the number of lookups
    E.check('R08.5', dict(id='prover.multiplicities', fn='plonk::prover::set_lookup_wires', crate='plonky2', kind='try', callee='set_target',
                          src=['c:LookupTableGate::wire_ith_multiplicity', 'c:from_canonical_usize'], ctx={'uncond': True}, whole=True,
                          why='multiplicities are written for every table entry; an early `continue` (e.g. when no padding is needed) would leave them 0 and the argument unbalanced'))
    # R08.10 the prover credits a lookup to the table entry holding the looked-up PAIR
    ck.rule('R08.10', 'set_lookup_wires resolves the table entry of a lookup from BOTH the looked-up input and output (the lookup argument compares pairs): a table may repeat an input with different outputs')
    slw = F.one('plonk::prover::set_lookup_wires', crate='plonky2')
    if slw is None:
        ck.ob('R08.10', 'anchor', False, 'ANCHOR-MISSING set_lookup_wires')
    else:
        from .facts import pat_binds
        D10 = defrender.Defs(slw)
        loops_ = [n for n in walk(slw.body) if n.get('k') == 'For' and any(x.get('k') == 'Field' and x.get('n') == 'lut_to_lookups' for x in walk(n['it']))]
        okk, why10, loc10 = False, 'no loop over lut_to_lookups found in set_lookup_wires', '%s:%d' % (slw.file, slw.line)
        for lp in loops_:
            binds = [b for b in pat_binds(lp['p'])]
            gets = [x for x in walk(lp['b']) if x.get('k') == 'MCall' and x.get('n') == 'get' and x.get('a')]
            if not gets:
                continue
            # locals reachable from the key expression through plain lets
            reach = set()
            todo = [gets[0]['a'][0]]
            for _ in range(40):
                if not todo:
                    break
                nd = todo.pop()
                for y in walk(nd):
                    if y.get('k') == 'Local' and y['id'] not in reach:
                        reach.add(y['id'])
                        d_ = D10.defs.get(y['id'])
                        if d_ and d_[0] in ('let', 'part') and isinstance(d_[1], dict):
                            todo.append(d_[1])
            used = [b for b in binds if b['id'] in reach]
            okk = len(binds) >= 2 and len(used) >= 2
            if len(binds) == 1 and used:
                # `for pair in ..`: both components must be projected (pair.0 and pair.1, or a destructuring let of the pair)
                proj = set()
                exprs_ = [gets[0]['a'][0]] + [D10.defs[i][1] for i in reach if i in D10.defs and D10.defs[i][0] in ('let', 'part') and isinstance(D10.defs[i][1], dict)]
                for ex_ in exprs_:
                    for y in walk(ex_):
                        if y.get('k') == 'Field' and y.get('n') in ('0', '1'):
                            b_ = y['e']
                            while b_.get('k') in ('Ref', 'Un'):
                                b_ = b_['e']
                            if b_.get('k') == 'Local' and b_['id'] == binds[0]['id']:
                                proj.add(y['n'])
                comps = [i for i in reach if i in D10.defs and D10.defs[i][0] == 'part' and isinstance(D10.defs[i][1], dict) and any(y.get('k') == 'Local' and y['id'] == binds[0]['id'] for y in walk(D10.defs[i][1]))]
                okk = proj == {'0', '1'} or len(comps) >= 2
                if okk:
                    used = [binds[0], binds[0]]
            why10 = 'the index key uses both components of the lookup (%s)' % ', '.join(b['n'] for b in used) if okk else \
                'set_lookup_wires looks the table index up from %s only: for a table that lists an input twice with different outputs the multiplicity is credited to another entry than the one the lookup generator used, and a proof whose looked-up pairs are all in the table does not verify' % (', '.join(b['n'] for b in used) or 'no component of the lookup')
            loc10 = gets[0].get('s')
            break
        ck.ob('R08.10', 'multiplicity.key', okk, why10, loc10)
    lut_row_layout(F, ck)
    # R08.4 integer parameters of the argument agree between the three evaluators
    ck.rule('R08.4', 'the three lookup evaluators derive the same integer parameters (slots per row, degrees, number of partial polynomials, table chunk size) - compared as normalised polynomials, local names and len() receivers abstracted')
    from . import poly as _poly
    import re as _re
    E_ = _poly.Ev(F)
    params = {}
    for q, fn in fns.items():
        env, out = {}, []
        for s_ in walk(fn.body):
            if s_.get('k') == 'Let' and 'i' in s_ and s_['p'].get('k') == 'Bind' and s_['p']['id'] not in env:
                t_ = fn.types[s_['p']['t']] if s_['p'].get('t') is not None else ''
                try:
                    env[s_['p']['id']] = E_.ev(fn, s_['i'], env, 3)
                    if t_ == 'usize':
                        out.append(_poly.show(env[s_['p']['id']]))
                except _poly.Unknown as ex:
                    env[s_['p']['id']] = ex
        # abstract the receivers of len(): numbered by first appearance
        seen_ = {}
        def canon(m):
            return seen_.setdefault(m.group(0), 'len#%d' % len(seen_))
        params[q] = sorted(_re.sub(r'len\(@[^)]*\)', canon, x) for x in out)
    ref4 = params.get('check_lookup_constraints')
    for q in fns:
        if q == 'check_lookup_constraints' or ref4 is None:
            continue
        ok4 = params[q] == ref4
        ck.ob('R08.4', 'params:' + q, ok4, '%d integer parameters agree' % len(ref4) if ok4 else
              'lookup evaluators derive different integer parameters: check_lookup_constraints has %s but %s has %s - prover, native verifier and in-circuit verifier then group table slots / lookups differently and honest proofs are rejected for some row widths' %
              ([x for x in ref4 if x not in params[q]], q, [x for x in params[q] if x not in ref4]), '%s:%d' % (fns[q].file, fns[q].line))
    ck.floor('R08.4', 'integer parameters per lookup evaluator', len(ref4 or []), 4)
    # slots are always grouped with a CEILING division (a partially filled last group still needs its polynomial / degree): no plain
    # division of a slot count in the evaluators or in the prover's compute_lookup_polys
    grp_fns = dict(fns)
    cl = F.one('plonk::prover::compute_lookup_polys', crate='plonky2')
    if cl is not None:
        grp_fns['compute_lookup_polys'] = cl
    for q, fn in sorted(grp_fns.items()):
        env, bad4 = {}, []
        for s_ in walk(fn.body):
            if s_.get('k') == 'Let' and 'i' in s_ and s_['p'].get('k') == 'Bind' and s_['p']['id'] not in env:
                try:
                    env[s_['p']['id']] = E_.ev(fn, s_['i'], env, 3)
                    sh = _poly.show(env[s_['p']['id']])
                    # a floor division whose numerator is itself a slot count:  ((num_routed_wires)/(k))/(...)
                    if _re.search(r'\(\(CircuitConfig\.num_routed_wires\)/\(\d+\)\)/\(', sh) and 'div_ceil' not in sh.split('((CircuitConfig')[0][-12:]:
                        bad4.append('%s = %s' % (s_['p']['n'], sh))
                except _poly.Unknown as ex:
                    env[s_['p']['id']] = ex
        ck.ob('R08.4', 'ceil-grouping:' + q, not bad4, 'slot counts are grouped with ceiling divisions only' if not bad4 else
              '%s groups slots with a floor division (%s): when the divisor divides the slot count the result is one too large (or the last partial group is lost) and prover and verifier use different degrees for some row widths' % (q, '; '.join(bad4)), '%s:%d' % (fn.file, fn.line))
    # R08.9 padding bound: the prover's padding of looking rows and the table polynomial's padding (native and in-circuit)
    npad = 0
    for sw, n, res in pad_bounds(F):
        if sw is None:
            ck.ob('R08.9', 'anchor:' + n.split('::')[-1], False, 'ANCHOR-MISSING ' + n)
        elif n is None:
            ck.observe('R08.9 not applicable to %s: no `num_slots - x %% num_slots` padding computation found' % sw.qual)
        elif isinstance(res, str):
            ck.observe('R08.9 not applicable: expression outside the symbolic interval evaluator (%s)' % res)
        else:
            lo, hi = res
            ok = symint.le(hi, (1, -1)) and symint.le((0, 0), lo)
            npad += 1
            ck.ob('R08.9', 'padding.bound' + ('' if sw.name == 'set_lookup_wires' else ':' + sw.name), ok, 'padding slot count in [0, num_slots - 1]' if ok else
                  'in %s the padding slot count can reach %s*num_slots%+d: when the number of entries is an exact multiple of the slot count a full row of padding is added (%s)' % ((sw.qual,) + hi + (
                      'the multiplicity of the first entry is over-counted' if sw.name == 'set_lookup_wires' else 'the table polynomial gets a row of padding the sibling evaluator and the prover do not have',)), n.get('s'))
    ck.floor('R08.9', 'padding computations bounded', npad, 3)
    ck.decided += ['evaluator skeleton agreement and argument shape', 'selector exhaustiveness and tiling', 'declared count', 'initial accumulator is the one read', 'wires consumed', 'padding bound']
    ck.undecided += ['correctness of the log-derivative argument (algebra)', 'multiplicity bookkeeping values', 'row placement in add_all_lookups']
    return 'Decides structural necessary conditions of C08. The log-derivative algebra and multiplicity values are not decided.'
