"""Canonical rendering of small expressions (for 'same length expression' rules)."""


def render(n):
    if not isinstance(n, dict):
        return '?'
    k = n.get('k')
    if k == 'Local':
        return n['n']
    if k == 'Lit':
        return str(n['v'])
    if k == 'Def':
        return n['d'].split('::')[-1]
    if k in ('Ref', 'Cast'):
        return render(n['e'])
    if k == 'Un':
        return ('*' if n.get('op') == 'Deref' else '!' if n.get('op') == 'Not' else '-') + render(n['e'])
    if k == 'Bin':
        return '(%s %s %s)' % (render(n['l']), n['op'], render(n['r']))
    if k == 'Field':
        return render(n['e']) + '.' + n['n']
    if k == 'Index':
        return render(n['e']) + '[' + render(n['i']) + ']'
    if k == 'MCall':
        return render(n['r']) + '.' + n['n'] + '(' + ','.join(render(a) for a in n['a']) + ')'
    if k == 'Call':
        return render(n['f']) + '(' + ','.join(render(a) for a in n['a']) + ')'
    if k == 'Block' and not n['st'] and 'e' in n:
        return render(n['e'])
    return '<' + str(k) + '>'
