"""C01 - honest proofs of satisfiable circuits verify and carry the right outputs (structural clauses).

R01.1 generator dependency discipline: a witness generator reads only targets it declared in dependencies()
R01.2 prover and native verifier derive the same transcript (C04 alignment P~V); they evaluate Z_H / the quotient on
      consistent domains
R01.3 sibling agreement of the base-field and extension-field arithmetic constant-folding shortcuts
"""
from . import flow, ob, c04, transcript
from .facts import parse_path

READS = {'get_target', 'get_wire', 'get_extension_target', 'get_extension_targets', 'get_bool_target', 'get_hash_target', 'get_targets', 'get_wires',
         'get_local_ext', 'get_local_ext_algebra', 'try_get_target', 'try_get_wire', 'get_biguint_target', 'get_bits', 'get_merkle_cap_target'}


def interesting(a):
    if a.startswith('p:self'):
        return True
    if a.startswith('c:') and not a.startswith('c:Witness') and not a.startswith('c:PartitionWitness'):
        last = a.split('::')[-1]
        return 'wire' in last or last in ('limbs', 'const_input')
    if a.startswith('d:'):
        return not a.split('::')[-1].startswith('START_')
    return False


def norm(a):
    return a.replace('[]', '')


def run(F, ck, tier):
    E = ob.Engine(F, ck)
    ck.rule('R01.1', 'generator reads are a subset of its declared dependencies (SimpleGenerator::run fires as soon as dependencies() are set: an undeclared read panics or reads an unset wire whenever the scheduler runs the generator first)')
    ck.rule('R01.2', 'prover transcript = verifier transcript; prover evaluates Z_H, L_0 and next-row shifts on the quotient coset')
    ck.rule('R01.3', 'base and extension arithmetic special-case routines return the same operands under the same guard conditions')
    gens = {}
    for f in F.fns.values():
        if (f.trait or '').endswith('SimpleGenerator') and f.name in ('run_once', 'dependencies') and f.crate == 'plonky2':
            gens.setdefault((f.owner, f.file), {})[f.name] = f
    ck.floor('R01.1', 'SimpleGenerator impls', len(gens), 24)
    nreads = 0
    for (o, file), v in sorted(gens.items()):
        if len(v) != 2:
            ck.ob('R01.1', 'shape:%s' % o, False, 'generator %s lacks run_once or dependencies' % o)
            continue

        def inl(c, d, ev, file=file):
            fn = F.fns.get(c)
            if fn is None or fn.trait or fn.raw['dk'] != 'AssocFn':
                return None
            return fn if (fn.file == file and fn.name not in READS) else None
        fd = flow.Flow(F, v['dependencies'], inline=inl, depth=2)
        deps = {norm(a) for a in flow.flat(fd.ret) if interesting(a)}
        fr = flow.Flow(F, v['run_once'], inline=inl, depth=2)
        wparam = None
        if len(v['run_once'].params) >= 2 and v['run_once'].params[1].get('k') == 'Bind':
            wparam = v['run_once'].params[1]['n']
        bad = {}
        n = 0
        for e in fr.events:
            if e.kind == 'call' and e.name in READS and e.node.get('k') == 'MCall':
                n += 1
                for a in e.args:
                    for x in flow.flat(a):
                        if interesting(x) and norm(x) not in deps:
                            bad.setdefault(norm(x), e)
        nreads += n
        key = 'reads-declared:%s:%s' % (o, file.split('/')[-1].replace('.rs', ''))
        if not bad:
            ck.ob('R01.1', key, True, '%d witness reads, all from declared dependencies (%d sources)' % (n, len(deps)), '%s:%d' % (v['run_once'].file, v['run_once'].line))
        else:
            x, e = sorted(bad.items())[0]
            ck.ob('R01.1', key, False, 'UNDECLARED READ: %s::run_once reads a target derived from %s which dependencies() does not declare (%d undeclared sources): the generator can run before that target is set' % (o, x[2:], len(bad)), e.loc())
    ck.floor('R01.1', 'witness read sites in generators', nreads, 45)
    # ---------------------------------------------------------------- R01.2
    trs = {}
    for side in ('V', 'P'):
        q, crate, extra = c04.SIDES['plonk'][side]
        c = [f for f in F.find(q, crate=crate) if not f.trait]
        if len(c) == 1:
            trs[side] = transcript.extract(F, c[0], extra_inline=extra)
    if len(trs) == 2:
        ok, info = c04.align(trs['V'][0], trs['P'][0])
        skipped = [] if not ok else [t for w, t in info]
        ck.ob('R01.2', 'transcript:plonk:V~P', ok and not skipped, '%d verifier / %d prover transcript events align' % (len(trs['V'][0]), len(trs['P'][0])) if ok and not skipped else
              'prover and verifier transcripts diverge: honest proofs would be rejected', None)
        if ok:
            # the same number of challenges is drawn by aligned plural squeezes (count expressions as polynomials)
            sub = _Sub01(ck)
            c04.squeeze_counts(F, sub, 'plonk', 'V', 'P', trs['V'][0], trs['P'][0], info)
    else:
        ck.ob('R01.2', 'transcript:plonk:V~P', False, 'ANCHOR-MISSING transcript functions')
    E.check('R01.2', dict(id='quotient.zh_domain', fn='plonk::prover::compute_quotient_polys', crate='plonky2', kind='call', callee='ZeroPolyOnCoset::new',
                          src=['c:degree_bits', 'F:CommonCircuitData.quotient_degree_factor', 'c:log2_ceil'], why='Z_H and L_0 are evaluated on the coset of size n * 2^quotient_degree_bits on which the quotient is computed'))
    E.check('R01.2', dict(id='quotient.points', fn='plonk::prover::compute_quotient_polys', crate='plonky2', kind='call', callee='two_adic_subgroup',
                          src=['c:degree_bits', 'F:CommonCircuitData.quotient_degree_factor', 'c:log2_ceil'], why='evaluation points of the same coset'))
    E.check('R01.2', dict(id='quotient.bound', fn='plonk::prover::compute_quotient_polys', crate='plonky2', kind='assert_or_guard',
                          src=['F:CommonCircuitData.quotient_degree_factor', 'F:FriConfig.rate_bits'], why='quotient_degree_bits <= rate_bits so the committed LDE can be subsampled'))
    E.check('R01.2', dict(id='quotient.eval', fn='plonk::prover::compute_quotient_polys', crate='plonky2', kind='call', callee='eval_vanishing_poly_base_batch',
                          src=['p:common_data', 'p:betas', 'p:gammas', 'p:deltas', 'p:alphas', 'c:ZeroPolyOnCoset::new', 'p:wires_commitment', 'p:zs_partial_products_and_lookup_commitment', 'F:ProverOnlyCircuitData.constants_sigmas_commitment'],
                          why='the prover evaluates the same vanishing expression on the committed polynomials'))
    # ---------------------------------------------------------------- R01.3
    a = F.one('CircuitBuilder::arithmetic_special_cases', crate='plonky2')
    b = F.one('CircuitBuilder::arithmetic_extension_special_cases', crate='plonky2')
    if a is None or b is None:
        ck.ob('R01.3', 'anchor', False, 'ANCHOR-MISSING arithmetic(_extension)_special_cases')
    else:
        def sigs(fn):
            fl = flow.Flow(F, fn)
            out = []
            prev = []
            for e in fl.events:
                if e.kind != 'return':
                    continue
                val = sorted({x[2:].split('.')[0] for x in flow.flat(e.val) if x.startswith('p:') and x[2:].split('.')[0] != 'self'})
                cond, own, frames = set(), set(), []
                for fr in e.ctx:
                    if fr[0] == 'if':
                        c1 = set()
                        for x in flow.flat(fr[1]):
                            if x.startswith('p:') and x[2:].split('.')[0] != 'self':
                                c1.add(x[2:].split('.')[0].replace('[]', ''))
                            elif x.startswith('c:') and x.split('::')[-1] in ('is_one', 'is_zero'):
                                c1.add(x.split('::')[-1])
                        frames.append(frozenset(c1))
                        cond |= c1
                # the guards of THIS shortcut: the conditions that were not already in force at the previous early return
                # (those are the negations of earlier shortcuts, carried along by every later return)
                for c1 in frames:
                    if c1 not in prev:
                        own |= c1
                prev = frames
                out.append((tuple(val), tuple(sorted(cond)), tuple(sorted(own))))
            return sorted(out)
        sa, sb = sigs(a), sigs(b)
        ck.ob('R01.3', 'special-cases:base~ext', sa == sb and len(sa) >= 4, '%d early returns with identical (operand, guard) signatures' % len(sa) if sa == sb else
              'arithmetic_special_cases and arithmetic_extension_special_cases differ: base returns %s, extension returns %s - a folding shortcut drops a condition (e.g. the scale factor being one) in one of them' % (
                  [x for x in sa if x not in sb], [x for x in sb if x not in sa]), '%s:%d' % (a.file, a.line))
    ck.rule('R01.6', 'in the prover\'s quotient computation the next-row offset (in the quotient coset) times the step used to read committed oracles is exactly 1 << rate_bits (exponents added as polynomials)')
    from . import stride
    ck.floor('R01.6', 'next-row index sites in compute_quotient_polys', stride.check(F, ck, 'R01.6', 'compute_quotient_polys', 'plonky2'), 1)
    ck.rule('R01.7', 'honest lookups can be proved: the padding of a partially filled lookup row uses fewer slots than a row has, and the table generator fills the rows the builder allocated (R08.9 and R08.11 of C08, which are completeness conditions)')
    from . import c08, report
    c08.run(F, report.FilterProxy(ck, {'R08.9': 'R01.7', 'R08.11': 'R01.7'}), tier)
    ck.decided += ['generators read only declared dependencies', 'prover/verifier transcript agreement', 'prover quotient domain consistency', 'base/extension folding shortcuts agree']
    ck.undecided += ['that proving succeeds and outputs are right for all programs, inputs and configurations (behavioural)', 'gadget arithmetic correctness']
    return 'Decides a few structural necessary conditions of C01 (generator dependency discipline, transcript agreement, quotient-domain consistency, sibling shortcut agreement). The behavioural statement is not decided.'


class _Sub01:
    """records R04.3-style count obligations under R01.2"""
    def __init__(self, ck):
        self.ck = ck

    def ob(self, rule, key, ok, detail='', loc=None):
        return self.ck.ob('R01.2', key, ok, detail, loc)

    @property
    def notes(self):
        return self.ck.notes
