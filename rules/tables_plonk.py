"""Obligation tables for the PLONK verifier (native) and its in-circuit twin."""
OPEN = ['constants', 'wires', 'plonk_zs', 'plonk_zs_next', 'lookup_zs', 'partial_products', 'plonk_sigmas']
CHAL = ['plonk_betas', 'plonk_gammas', 'plonk_alphas', 'plonk_deltas', 'plonk_zeta']

NATIVE = [
    dict(id='plonk.fri_call', fn='plonk::verifier::verify_with_challenges', kind='try', callee='verify_fri_proof',
         src=['F:VerifierOnlyCircuitData.constants_sigmas_cap', 'F:Proof.wires_cap', 'F:Proof.plonk_zs_partial_products_cap', 'F:Proof.quotient_polys_cap',
              'F:Proof.opening_proof', 'F:Proof.openings', 'c:to_fri_openings', 'F:ProofChallenges.fri_challenges', 'c:get_fri_instance', 'F:ProofChallenges.plonk_zeta',
              'F:CommonCircuitData.fri_params'],
         ctx={'noloop': True, 'uncond': True}, why='FRI binds all four oracles (preprocessed cap from the verifier data, not the proof) to the openings at zeta'),
    dict(id='plonk.quotient_identity', fn='plonk::verifier::verify_with_challenges', kind='guard',
         src=['c:eval_vanishing_poly', 'F:OpeningSet.quotient_polys', 'F:ProofChallenges.plonk_zeta', 'c:reduce_with_powers', 'c:degree_bits'],
         ctx={'uncond': True, 'loop': ['F:OpeningSet.quotient_polys']}, whole=True, why='vanishing(zeta) == Z_H(zeta) t(zeta) for every challenge index'),
    dict(id='plonk.vanishing_inputs', fn='plonk::verifier::verify_with_challenges', kind='call', callee='eval_vanishing_poly',
         src=['F:OpeningSet.%s' % f for f in OPEN] + ['F:OpeningSet.lookup_zs_next', 'p:public_inputs_hash'] + ['F:ProofChallenges.%s' % c for c in CHAL],
         why='every opening and every challenge enters the vanishing evaluation'),
    dict(id='plonk.verify.path', fn='plonk::verifier::verify', kind='call', callee='verify_with_challenges',
         src=['F:ProofWithPublicInputs.proof', 'c:get_public_inputs_hash', 'c:get_challenges', 'p:verifier_data', 'p:common_data'], why='verify = validate, derive challenges, verify_with_challenges'),
    dict(id='plonk.challenges.digest', fn='plonk::verifier::verify', kind='call', callee='get_challenges',
         src=['F:VerifierOnlyCircuitData.circuit_digest', 'c:get_public_inputs_hash', 'p:common_data'], why='challenges bound to this circuit digest and these public inputs'),
]

CIRCUIT = [
    dict(id='plonk.fri_call.circuit', twin='plonk.fri_call', fn='CircuitBuilder::verify_proof_with_challenges', kind='call', callee='verify_fri_proof',
         src=['F:VerifierCircuitTarget.constants_sigmas_cap', 'F:ProofTarget.wires_cap', 'F:ProofTarget.plonk_zs_partial_products_cap', 'F:ProofTarget.quotient_polys_cap',
              'F:ProofTarget.opening_proof', 'F:ProofTarget.openings', 'c:to_fri_openings', 'F:ProofChallengesTarget.fri_challenges', 'c:get_fri_instance_target', 'F:ProofChallengesTarget.plonk_zeta',
              'F:CommonCircuitData.fri_params'],
         ctx={'noloop': True, 'uncond': True}, why='in-circuit FRI binds the same four oracles'),
    dict(id='plonk.quotient_identity.circuit', twin='plonk.quotient_identity', fn='CircuitBuilder::verify_proof_with_challenges', kind='sink', callee=['connect_extension'],
         src=['c:eval_vanishing_poly_circuit', 'F:OpeningSetTarget.quotient_polys', 'F:ProofChallengesTarget.plonk_zeta', 'c:reduce', 'c:degree_bits'],
         ctx={'uncond': True, 'loop': ['F:OpeningSetTarget.quotient_polys']}, whole=True, why='vanishing identity connected for every challenge index'),
    dict(id='plonk.vanishing_inputs.circuit', twin='plonk.vanishing_inputs', fn='CircuitBuilder::verify_proof_with_challenges', kind='call', callee='eval_vanishing_poly_circuit',
         src=['F:OpeningSetTarget.%s' % f for f in OPEN] + ['F:OpeningSetTarget.next_lookup_zs', 'p:public_inputs_hash'] + ['F:ProofChallengesTarget.%s' % c for c in CHAL],
         why='every opening and challenge target enters the in-circuit vanishing evaluation'),
    dict(id='plonk.verify.path.circuit', twin='plonk.verify.path', fn='CircuitBuilder::verify_proof', kind='call', callee='verify_proof_with_challenges',
         src=['F:ProofWithPublicInputsTarget.proof', 'c:hash_n_to_hash_no_pad', 'F:ProofWithPublicInputsTarget.public_inputs', 'c:get_challenges', 'p:inner_verifier_data', 'p:inner_common_data'],
         why='in-circuit verify = hash public inputs, derive challenges, verify with challenges'),
    dict(id='plonk.challenges.digest.circuit', twin='plonk.challenges.digest', fn='CircuitBuilder::verify_proof', kind='call', callee='get_challenges',
         src=['F:VerifierCircuitTarget.circuit_digest', 'c:hash_n_to_hash_no_pad', 'F:ProofWithPublicInputsTarget.public_inputs', 'p:inner_common_data'], why='in-circuit challenges bound to digest target and public inputs'),
    dict(id='plonk.pi_count.circuit', twin='(shape)', fn='CircuitBuilder::verify_proof', kind='assert_or_guard',
         src=['F:ProofWithPublicInputsTarget.public_inputs', 'F:CommonCircuitData.num_public_inputs'], why='number of public-input targets equals the inner circuit (builder-side assertion)'),
]

# R02.2: the four vanishing term groups enter the alpha combination in all three evaluators
GROUPS = {
    'plonk::vanishing_poly::eval_vanishing_poly':
        ['c:eval_l_0', 'p:local_zs', 'p:next_zs', 'c:check_partial_products', 'p:partial_products', 'p:s_sigmas', 'p:betas', 'p:gammas', 'F:CommonCircuitData.k_is',
         'c:check_lookup_constraints', 'p:local_lookup_zs', 'p:next_lookup_zs', 'p:deltas', 'c:evaluate_gate_constraints', 'p:vars', 'p:alphas', 'c:reduce_with_powers_multi'],
    'plonk::vanishing_poly::eval_vanishing_poly_base_batch':
        ['c:eval_l_0', 'p:local_zs_batch', 'p:next_zs_batch', 'c:check_partial_products', 'p:partial_products_batch', 'p:s_sigmas_batch', 'p:betas', 'p:gammas', 'F:CommonCircuitData.k_is',
         'c:check_lookup_constraints_batch', 'p:local_lookup_zs_batch', 'p:next_lookup_zs_batch', 'p:deltas', 'c:evaluate_gate_constraints_base_batch', 'p:vars_batch', 'p:alphas', 'c:reduce_with_powers_multi'],
    'plonk::vanishing_poly::eval_vanishing_poly_circuit':
        ['c:eval_l_0_circuit', 'p:local_zs', 'p:next_zs', 'c:check_partial_products_circuit', 'p:partial_products', 'p:s_sigmas', 'p:betas', 'p:gammas', 'F:CommonCircuitData.k_is',
         'c:check_lookup_constraints_circuit', 'p:local_lookup_zs', 'p:next_lookup_zs', 'p:deltas', 'c:evaluate_gate_constraints_circuit', 'p:vars', 'p:alphas', 'c:reduce_with_powers_ext_circuit|c:reduce_with_powers_multi|c:reduce'],
}
