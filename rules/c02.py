"""C02 - no accepted proof for an assignment that violates the circuit (structural clauses)."""
from . import ob, flow, tables_plonk, tables_fri
from .facts import pat_binds, walk, callee, parse_path


def run(F, ck, tier):
    E = ob.Engine(F, ck)
    ck.rule('R02.1', 'native PLONK verifier obligations: vanishing identity per challenge, all openings/challenges enter the vanishing evaluation, FRI call with the four caps')
    ck.rule('R02.2', 'the four vanishing term groups (L_0(Z-1), partial products, lookup constraints, gate constraints) and alpha enter the combination returned by each of the three evaluators')
    ck.rule('R02.3', 'Gate::eval_filtered* multiply every constraint by the selector filter and strip the selector prefixes')
    ck.rule('R02.4', 'the hash of the public inputs is connected to the PublicInputGate wires; the gate compares those wires with vars.public_inputs_hash')
    ck.rule('R02.5', 'conflicting assignments to one copy class are refused with Err')
    ck.rule('R02.6', 'sigma construction: all copy constraints are merged and paths compressed before the wire partition is read')
    ck.rule('R02.7', 'evaluate_gate_constraints* visit every gate of the circuit and accumulate its filtered constraints')
    for spec in tables_plonk.NATIVE:
        E.check('R02.1', spec)
    for fq, atoms in tables_plonk.GROUPS.items():
        E.check('R02.2', dict(id='groups:' + fq.split('::')[-1], fn=fq, kind='ret', src=atoms,
                              why='every vanishing term group and the alpha powers reach the value returned to the quotient identity'))
    # R02.3
    for name, flt, un in (('eval_filtered', 'compute_filter', 'eval_unfiltered'), ('eval_filtered_base_batch', 'compute_filter', 'eval_unfiltered_base_batch')):
        E.check('R02.3', dict(id='filter:' + name, fn='Gate::' + name, crate='plonky2', kind='ret',
                              src=['c:' + flt, 'c:' + un, 'p:selector_index', 'p:group_range', 'p:row', 'f:local_constants'],
                              why='returned constraints = filter * unfiltered constraints'))
    E.check('R02.3', dict(id='filter:eval_filtered_circuit', fn='Gate::eval_filtered_circuit', crate='plonky2', kind='call', callee='mul_add_extension',
                          src=['c:compute_filter_circuit', 'c:eval_unfiltered_circuit', 'p:combined_gate_constraints', 'p:selector_index', 'p:group_range'],
                          ctx={'loop': ['p:combined_gate_constraints', 'c:eval_unfiltered_circuit']}, why='acc += filter * constraint for every constraint'))
    for name in ('eval_filtered', 'eval_filtered_base_batch', 'eval_filtered_circuit'):
        E.check('R02.3', dict(id='prefix:' + name, fn='Gate::' + name, crate='plonky2', kind='call', callee='remove_prefix',
                              src=['p:num_selectors', 'p:num_lookup_selectors'] if name == 'eval_filtered_base_batch' else ['p:num_selectors'],
                              why='selector constants are stripped before the gate sees its own constants'))
    # R02.7 every gate evaluated
    for name, call in (('evaluate_gate_constraints', 'eval_filtered'), ('evaluate_gate_constraints_base_batch', 'eval_filtered_base_batch'), ('evaluate_gate_constraints_circuit', 'eval_filtered_circuit')):
        E.check('R02.7', dict(id='gates:' + name, fn='plonk::vanishing_poly::' + name, kind='call', callee=call,
                              src=['F:CommonCircuitData.gates', 'F:CommonCircuitData.selectors_info', 'p:vars|p:vars_batch', 'F:SelectorsInfo.selector_indices', 'F:SelectorsInfo.groups'],
                              ctx={'loop': ['F:CommonCircuitData.gates']}, whole=True, why='every gate of the circuit contributes its filtered constraints'))
    # R02.4
    E.check('R02.4', dict(id='pi.connect', fn='CircuitBuilder::try_build_with_options', crate='plonky2', kind='sink', callee=['connect'],
                          src=['c:hash_n_to_hash_no_pad', 'F:CircuitBuilder.public_inputs', 'c:wires_public_inputs_hash', 'c:add_gate', 'c:wire'],
                          ctx={'loop': ['c:hash_n_to_hash_no_pad', 'c:wires_public_inputs_hash']}, whole=True, why='each element of the public-input hash is wired to the PublicInputGate'))
    for ev_name in ('eval_unfiltered', 'eval_unfiltered_circuit'):
        cands = [f for f in F.find('PublicInputGate::' + ev_name, crate='plonky2')]
        if len(cands) != 1:
            ck.ob('R02.4', 'pi.gate:' + ev_name, False, 'ANCHOR-MISSING PublicInputGate::%s' % ev_name)
            continue
        E.check('R02.4', dict(id='pi.gate:' + ev_name, fn=cands[0].d, kind='ret', src=['c:wires_public_inputs_hash', 'f:local_wires', 'f:public_inputs_hash'],
                              why='constraint = wire - public_inputs_hash element'))
    # R02.5
    E.check('R02.5', dict(id='conflict.refused', fn='PartitionWitness::set_target_returning_rep', crate='plonky2', kind='guard',
                          src=['p:value', 'F:PartitionWitness.values', 'F:PartitionWitness.representative_map', 'p:target'],
                          why='a second, different value for an already-set representative returns Err'))
    # R02.6
    E.order('R02.6', 'sigma.merge_then_compress', 'CircuitBuilder::sigma_vecs', 'merge', 'compress_paths', 'copy constraints are merged before path compression', crate='plonky2')
    E.order('R02.6', 'sigma.compress_then_partition', 'CircuitBuilder::sigma_vecs', 'compress_paths', 'wire_partition', 'the partition groups wires by class representative, which is only valid after compress_paths()', crate='plonky2')
    E.check('R02.6', dict(id='sigma.all_constraints', fn='CircuitBuilder::sigma_vecs', crate='plonky2', kind='call', callee='merge',
                          src=['F:CircuitBuilder.copy_constraints', 'F:CopyConstraint.pair'], ctx={'loop': ['F:CircuitBuilder.copy_constraints'], 'uncond': True}, whole=True,
                          why='every copy constraint is merged into the forest'))
    E.check('R02.6', dict(id='sigma.polys', fn='CircuitBuilder::sigma_vecs', crate='plonky2', kind='ret', src=['c:get_sigma_polys', 'c:wire_partition', 'p:k_is', 'p:subgroup'], why='sigma polynomials come from the partition'))
    # R02.9 range / split gadgets look at every limb of every BaseSumGate they add
    ck.rule('R02.9', 'split_le (and hence range_check) walks the WHOLE limb range of each BaseSumGate it adds: limbs that are neither returned nor visited cannot be asserted zero, so the sum wire is not range-limited')
    sl = [f for f in F.find('CircuitBuilder::split_le', crate='plonky2') if f.file.endswith('gadgets/split_join.rs')]
    if len(sl) != 1:
        ck.ob('R02.9', 'anchor', False, 'ANCHOR-MISSING CircuitBuilder::split_le')
    else:
        loops_ = [n for n in walk(sl[0].body) if n.get('k') == 'For' and any(x.get('k') == 'MCall' and x.get('n') == 'limbs' for x in walk(n['it']))]
        bad = []
        for lp in loops_:
            bad += ob.is_partial_iter(lp['it'])
        if not loops_:
            ck.observe('R02.9 split_le.limbs-whole not applicable: split_le no longer iterates over BaseSumGate::limbs() in a recognisable form')
        ck.ob('R02.9', 'split_le.limbs-whole', not bad, 'every limb of each gate is visited' if loops_ and not bad else
              ('split_le iterates a truncated limb range (%s): the skipped limbs are never asserted zero and range_check(x, n) accepts values above 2^n' % ','.join(bad)) if bad else
              'not decided (unrecognised loop form)', (loops_[0].get('s') if loops_ else '%s:%d' % (sl[0].file, sl[0].line)))
        az = any(x.get('k') == 'MCall' and x.get('n') == 'assert_zero' for x in walk(sl[0].body))
        ck.ob('R02.9', 'split_le.unused-limbs-zero', az, 'unused limbs are asserted zero' if az else 'split_le no longer asserts the unused limbs to be zero')
    # R02.10 every way out of split_le has constrained the integer it splits
    ck.rule('R02.10', 'every return of split_le is preceded, on its path, by a constraint on the split integer (connect / assert_zero): a shortcut that returns the empty decomposition without constraining the integer makes range_check(x, 0) vacuous')
    if len(sl) == 1:
        fn = sl[0]
        pn = [b for p in fn.params for b in pat_binds(p)]
        ints = [b['id'] for b in pn if b['n'] != 'self'][:1]
        unconstrained = []
        nret = [0]

        def constrains(st):
            return any(x.get('k') == 'MCall' and x.get('n') in ('connect', 'assert_zero', 'assert_equal', 'connect_extension') and
                       any(y.get('k') == 'Local' and y['id'] in ints for a in x.get('a', []) for y in walk(a)) for x in walk(st))

        def visit(block, constrained):
            # returns True when the integer is constrained on every path that falls out of the block
            for st in block.get('st', []):
                for x in walk(st):
                    if x.get('k') == 'Ret':
                        nret[0] += 1
                        # a return nested in this statement: constrained so far, or inside the statement before the return
                        inner = _constrained_before(st, x)
                        if not (constrained or inner):
                            unconstrained.append(x.get('s'))
                if constrains(st) and st.get('k') not in ('If', 'Match', 'For', 'While', 'Loop'):
                    constrained = True
            return constrained

        def _constrained_before(st, ret):
            # inside the statement `st`, is there a constraining call that precedes `ret` in its own block?
            for b in walk(st):
                if b.get('k') == 'Block':
                    seen = False
                    for s2 in b.get('st', []):
                        if any(x is ret for x in walk(s2)):
                            return seen or (s2 is not ret and _constrained_before(s2, ret)) if s2.get('k') != 'Ret' else seen
                        if constrains(s2):
                            seen = True
            return False
        body = fn.body
        fell = visit(body, False)
        nret[0] += 1       # the tail
        if not fell:
            unconstrained.append('%s:%d (tail)' % (fn.file, fn.line))
        ck.ob('R02.10', 'split_le.every-exit-constrains', not unconstrained, '%d exits, each after a constraint on the integer' % nret[0] if not unconstrained else
              'UNCONSTRAINED EXIT: split_le returns at %s without having constrained the integer it was asked to split: range_check(x, n) for that case accepts every x' % ', '.join(map(str, unconstrained)),
              unconstrained[0] if unconstrained else None)
    # R02.13 limb accounting in split_le: returned bits + limbs asserted zero = all limbs of the gates added
    ck.rule('R02.13', 'split_le accounts for every limb of the BaseSumGates it adds: (bits returned) + (limbs asserted zero) = (gates) x (limbs per gate), as polynomials; a limb in neither set is a free boolean and range_check(x, n) accepts x up to 2^(n+1)')
    if len(sl) == 1:
        from . import poly as _poly
        fn = sl[0]
        E_ = _poly.Ev(F)
        env = {}
        for p_ in fn.params:
            for b in pat_binds(p_):
                env[b['id']] = _poly.sym('@' + b['n'])
        inits = {}
        for x in walk(fn.body):
            if x.get('k') == 'Let' and 'i' in x and x['p'].get('k') == 'Bind':
                inits[x['p']['id']] = x['i']
                try:
                    env[x['p']['id']] = E_.ev(fn, x['i'], env, 3)
                except _poly.Unknown as ex:
                    env[x['p']['id']] = ex
        try:
            total = returned = None
            zeroed = {}
            undecided = None
            for x in walk(fn.body):
                if x.get('k') != 'For':
                    continue
                inner = [y for y in walk(x['b']) if y.get('k') == 'For' and any(z.get('k') == 'MCall' and z.get('n') == 'limbs' for z in walk(y['it']))]
                if inner and any(z.get('k') == 'MCall' and z.get('n') == 'push' for z in walk(x['b'])):
                    # outer loop over the gates: their number is the length of the range the `gates` vector was collected from
                    it = x['it']
                    ids = [z['id'] for z in walk(it) if z.get('k') == 'Local' and z['id'] in inits]
                    rng = [z for i_ in ids for z in walk(inits[i_]) if z.get('k') == 'Struct' and 'Range' in (z.get('d') or '')]
                    if len(rng) != 1:
                        raise _poly.Unknown('gates range')
                    s0, e0 = E_.range_of(fn, rng[0], env, 3)
                    s1, e1 = E_.range_of(fn, inner[0]['it'], env, 3)
                    total = _poly.mul(_poly.add(e0, s0, -1), _poly.add(e1, s1, -1))
            for x in walk(fn.body):
                if x.get('k') == 'MCall' and x.get('n') == 'truncate' and x.get('a'):
                    returned = E_.ev(fn, x['a'][0], env, 3)
                if x.get('k') == 'MCall' and x.get('n') == 'drain' and x.get('a'):
                    f_ = dict(x['a'][0].get('f', [])) if x['a'][0].get('k') == 'Struct' else {}
                    if 'start' in f_ and 'end' not in f_:
                        returned = E_.ev(fn, f_['start'], env, 3)
            nz = 0
            zsum = {}
            for x in walk(fn.body):
                if x.get('k') == 'For' and any(z.get('k') == 'MCall' and z.get('n') == 'assert_zero' for z in walk(x['b'])):
                    nz += 1
                    it = x['it']
                    dr = [z for z in walk(it) if z.get('k') == 'MCall' and z.get('n') == 'drain']
                    if dr and total is not None:
                        f_ = dict(dr[0]['a'][0].get('f', []))
                        zsum = _poly.add(zsum, _poly.add(total, E_.ev(fn, f_['start'], env, 3), -1))
                    elif it.get('k') == 'Struct' and 'Range' in (it.get('d') or ''):
                        s2, e2 = E_.range_of(fn, it, env, 3)
                        zsum = _poly.add(zsum, _poly.add(e2, s2, -1))
                    else:
                        raise _poly.Unknown('zeroing loop form')
            if total is None or returned is None or nz == 0:
                raise _poly.Unknown('total / returned / zeroing loop not found')
            okl = _poly.add(returned, zsum) == total
            ck.ob('R02.13', 'split_le.limb-accounting', okl, 'returned %s + zeroed %s = %s' % (_poly.show(returned), _poly.show(zsum), _poly.show(total)) if okl else
                  'LIMBS UNACCOUNTED FOR: split_le returns %s bits and asserts %s limbs to be zero, but the gates it adds have %s limbs: the difference is limbs that are neither part of the result nor forced to zero '
                  '(free booleans in the base-2 sum), so range_check(x, n) accepts values of more than n bits' % (_poly.show(returned), _poly.show(zsum), _poly.show(total)), '%s:%d' % (fn.file, fn.line))
        except _poly.Unknown as ex:
            ck.observe('R02.13 limb accounting not decided: %s' % ex)
            ck.ob('R02.13', 'split_le.limb-accounting', True, 'not decided (form outside the polynomial evaluator: %s)' % ex)
    # R02.11 no vacuous equality constraint
    ck.rule('R02.11', 'no equality constraint relates an expression to itself: connect(x, x) / connect_hashes(h, h) / assert_equal(x, x) constrains nothing, the intended partner is missing')
    EQ_CALLS = {'connect', 'connect_hashes', 'connect_extension', 'connect_merkle_caps', 'connect_verifier_data', 'assert_equal', 'connect_hash', 'connect_fri_proof', 'connect_opening_set'}
    neq = 0

    def _n(n):
        if isinstance(n, dict):
            return {k: _n(v) for k, v in n.items() if k not in ('s', 't', 'ta', 'id')}
        if isinstance(n, list):
            return [_n(x) for x in n]
        return n
    import json as _json
    for fn in sorted(F.fns.values(), key=lambda f: f.qual):
        if fn.crate not in ('plonky2', 'starky') or fn.body is None:
            continue
        for x in walk(fn.body):
            if x.get('k') == 'MCall' and x.get('n') in EQ_CALLS and len(x.get('a', [])) == 2:
                neq += 1
                a, b = x['a']
                if _json.dumps(_n(a), sort_keys=True) == _json.dumps(_n(b), sort_keys=True) and not any(y.get('k') in ('MCall', 'Call') for y in walk(a)):
                    ck.ob('R02.11', 'self-equality:%s:%s' % (fn.qual, x['n']), False, 'VACUOUS CONSTRAINT: %s calls %s with the same expression on both sides: the equality it was meant to enforce (against the other object) has left the circuit' % (fn.qual, x['n']), x.get('s'))
    ck.ob('R02.11', 'self-equality:none', True, '%d two-sided equality constraints, none relates an expression to itself' % neq)
    ck.floor('R02.11', 'two-sided equality-constraint call sites', neq, 55)
    # R02.12 copy classes are grouped in ONE map over all rows
    ck.rule('R02.12', 'wire_partition groups the routed wires by representative in a single map created outside every loop / closure: per-block maps that are concatenated split a copy class that spans blocks into several sigma cycles')
    wp = F.one('Forest::wire_partition', crate='plonky2')
    if wp is None or wp.body is None:
        ck.ob('R02.12', 'anchor', False, 'ANCHOR-MISSING Forest::wire_partition')
    else:
        top = {s_['p']['id'] for s_ in wp.body.get('st', []) if s_.get('k') == 'Let' and s_.get('p', {}).get('k') == 'Bind'}
        ents = [x for x in walk(wp.body) if x.get('k') == 'MCall' and x.get('n') == 'entry']
        okg = bool(ents)
        why12 = ''
        for e_ in ents:
            r_ = e_['r']
            while r_.get('k') in ('Ref', 'Un'):
                r_ = r_['e']
            if not (r_.get('k') == 'Local' and r_['id'] in top):
                okg = False
                why12 = 'the grouping map `%s` is created inside a loop or closure' % r_.get('n', '?')
        ck.ob('R02.12', 'partition.global-map', okg, 'one map for all rows' if okg else
              'PER-BLOCK COPY CLASSES: in Forest::wire_partition %s: a copy class whose wires lie in different blocks becomes several permutation cycles, so wires that must be equal can differ' % (why12 or 'no grouping by representative found'),
              ents[0].get('s') if ents else '%s:%d' % (wp.file, wp.line))
    # R02.8 routable boundary
    ck.rule('R02.8', 'Wire::is_routable holds exactly for columns below num_routed_wires (the columns that have a sigma polynomial): the comparison is normalised algebraically, so equivalent spellings pass')
    routable_boundary(F, ck)
    ck.decided += ['each soundness-critical check of the native PLONK verifier exists and is fed by the right data', 'all four vanishing term groups enter the alpha combination in the three evaluators',
                   'selector filter applied', 'public-input hash wired to the PublicInputGate', 'copy-conflict refusal', 'sigma built from fully merged, compressed classes']
    ck.undecided += ['sufficiency of the constraint system', 'the adversarial-prover catalogue (behavioural)', 'per-gate constraint completeness (C07)']
    return 'Decides structural necessary conditions of C02 on the native PLONK verifier, the three vanishing evaluators, the gate filter, public-input binding, copy-class handling. Sufficiency of the constraint system is not decided.'


def routable_boundary(F, ck):
    from . import poly
    c = [f for f in F.find('Wire::is_routable', crate='plonky2')]
    if len(c) != 1 or c[0].body is None:
        ck.ob('R02.8', 'anchor', False, 'ANCHOR-MISSING Wire::is_routable')
        return
    fn = c[0]
    n = fn.body
    while n.get('k') == 'Block' and not n['st'] and 'e' in n:
        n = n['e']
    neg = False
    while n.get('k') == 'Un' and n.get('op') == 'Not':
        neg = not neg
        n = n['e']
    loc = '%s:%d' % (fn.file, fn.line)
    if n.get('k') != 'Bin' or n['op'] not in ('Lt', 'Le', 'Gt', 'Ge'):
        ck.observe('R02.8 not applicable: Wire::is_routable is not a single comparison any more')
        ck.ob('R02.8', 'routable.boundary', True, 'not a single comparison: not decided')
        return
    op = n['op']
    if neg:
        op = {'Lt': 'Ge', 'Le': 'Gt', 'Gt': 'Le', 'Ge': 'Lt'}[op]
    E = poly.Ev(F)
    try:
        d = poly.add(E.ev(fn, n['l'], {}, 2), E.ev(fn, n['r'], {}, 2), -1)
    except poly.Unknown as ex:
        ck.observe('R02.8 not applicable: %s' % ex)
        ck.ob('R02.8', 'routable.boundary', True, 'operands outside the polynomial normaliser: not decided')
        return
    # bring to the form  e < 0  (integers: e <= 0  <=>  e - 1 < 0)
    if op in ('Gt', 'Ge'):
        d = poly.add({}, d, -1)
        op = 'Lt' if op == 'Gt' else 'Le'
    if op == 'Le':
        d = poly.add(d, poly.const(1), -1)
    want = poly.add(poly.sym('Wire.column'), poly.sym('CircuitConfig.num_routed_wires'), -1)
    ok = d == want
    ck.ob('R02.8', 'routable.boundary', ok, 'is_routable(w) <=> w.column < num_routed_wires' if ok else
          'Wire::is_routable is true exactly when %s < 0, not when column - num_routed_wires < 0: a wire in a column without a sigma polynomial is treated as routable (its copy constraints are recorded but never enforced), '
          'or a routed column is treated as advice' % poly.show(d), loc)
