"""Rename-insensitive rendering: an expression is rendered with every local replaced by (the rendering of) its definition,
loop variables by elem(<normalised iterable>), parameters by their type's last segment + field chain."""
from .facts import walk, pat_binds, ty_adt

DROP_METHODS = {'iter', 'iter_mut', 'into_iter', 'enumerate', 'copied', 'cloned', 'clone', 'as_ref', 'as_slice', 'to_vec', 'borrow'}


class Defs:
    def __init__(self, fn):
        self.fn = fn
        self.defs = {}
        for i, p in enumerate(fn.params):
            for b in pat_binds(p):
                t = fn.types[b['t']] if b.get('t') is not None else ''
                self.defs[b['id']] = ('param', ty_adt(t) or 'arg%d' % i)
        for n in walk(fn.body):
            k = n.get('k')
            if k == 'Let' and 'i' in n:
                simple = n['p'].get('k') == 'Bind'
                for b in pat_binds(n['p']):
                    self.defs.setdefault(b['id'], ('let' if simple else 'part', n['i']))
            elif k == 'For':
                for b, path in _pat_fields(n['p'], ''):
                    self.defs.setdefault(b['id'], ('forfield', (n['it'], path)) if path else ('for', n['it']))
            elif k == 'LetE':
                for b in pat_binds(n['p']):
                    self.defs.setdefault(b['id'], ('part', n['i']))
            elif k == 'Closure':
                for p in n['p']:
                    for b in pat_binds(p):
                        self.defs.setdefault(b['id'], ('closure', None))
            elif k == 'Match':
                for a in n['arms']:
                    for b in pat_binds(a['p']):
                        self.defs.setdefault(b['id'], ('part', n['e']))

    def render(self, n, depth=4):
        if not isinstance(n, dict):
            return '?'
        k = n.get('k')
        if k == 'Local':
            d = self.defs.get(n['id'])
            if d is None or depth <= 0:
                return 'v'
            kind, x = d
            if kind == 'param':
                return x
            if kind == 'closure':
                return 'arg'
            if kind == 'let':
                return self.render(x, depth - 1)
            if kind == 'for':
                return 'elem(%s)' % self.render(x, depth - 1)
            if kind == 'forfield':
                return 'elem(%s)%s' % (self.render(x[0], depth - 1), x[1])
            return 'part(%s)' % self.render(x, depth - 1)
        if k == 'Lit':
            return str(n['v'])
        if k == 'Def':
            return n['d'].split('::')[-1]
        if k in ('Ref', 'Cast'):
            return self.render(n['e'], depth)
        if k == 'Un':
            return self.render(n['e'], depth) if n.get('op') == 'Deref' else '!' + self.render(n['e'], depth)
        if k == 'Bin':
            return '(%s %s %s)' % (self.render(n['l'], depth), n['op'], self.render(n['r'], depth))
        if k == 'Field':
            return self.render(n['e'], depth) + '.' + n['n']
        if k == 'Index':
            return 'elem(%s)' % self.render(n['e'], depth)
        if k == 'MCall':
            if n['n'] in DROP_METHODS:
                return self.render(n['r'], depth)
            return self.render(n['r'], depth) + '.' + n['n'] + '(' + ','.join(self.render(a, depth) for a in n['a']) + ')'
        if k == 'Call':
            f = n['f']
            name = f['d'].split('::')[-1] if f.get('k') == 'Def' else 'f'
            return name + '(' + ','.join(self.render(a, depth) for a in n['a']) + ')'
        if k == 'Block' and not n['st'] and 'e' in n:
            return self.render(n['e'], depth)
        return '<' + str(k) + '>'


def _pat_fields(p, path):
    k = p.get('k')
    if k == 'Bind':
        yield p, path
        if 'sub' in p:
            yield from _pat_fields(p['sub'], path)
    elif k == 'PStruct':
        for name, q in p['f']:
            yield from _pat_fields(q, path + '.' + name)
    elif k in ('PTuple', 'PTupleStruct'):
        for i, q in enumerate(p['a']):
            yield from _pat_fields(q, path + '.%d' % i if len(p['a']) > 1 else path)
    elif k == 'PRef':
        yield from _pat_fields(p['p'], path)


def tail(s, n=2):
    """keep only the last n segments of every dotted path (owners differ between siblings)"""
    import re
    def short(m):
        parts = m.group(0).split('.')
        return '.'.join(parts[-n:])
    return re.sub(r'[A-Za-z_][A-Za-z_0-9]*(\.[A-Za-z_][A-Za-z_0-9]*)+', short, s)


def abstract(D, n, marker_field, depth=5):
    """render n keeping only structure that involves an element of `<..>.marker_field`; everything else is '_'"""
    r = _abs(D, n, marker_field, depth)
    return r if r is not None else '_'


def _abs(D, n, mf, depth):
    if not isinstance(n, dict) or depth < 0:
        return None
    k = n.get('k')
    if k == 'Local':
        d = D.defs.get(n['id'])
        if d is None:
            return None
        kind, x = d
        if kind in ('param', 'closure'):
            return None
        if kind == 'let':
            return _abs(D, x, mf, depth - 1)
        # loop / destructured element
        if kind == 'forfield':
            x = x[0]
        base = x
        while isinstance(base, dict) and base.get('k') in ('MCall', 'Ref', 'Un', 'Cast'):
            if base.get('k') == 'MCall' and base['n'] not in DROP_METHODS and base['n'] not in ('zip', 'zip_eq'):
                break
            base = base.get('r') or base.get('e')
        if isinstance(base, dict) and base.get('k') in ('Field', 'Local') and base.get('n') == mf:
            return 'A'
        if isinstance(base, dict) and base.get('k') == 'Local':
            dd = D.defs.get(base['id'])
            if dd and dd[0] == 'let':
                b2 = dd[1]
                while isinstance(b2, dict) and b2.get('k') in ('Ref', 'Un', 'Cast'):
                    b2 = b2['e']
                if isinstance(b2, dict) and b2.get('k') == 'Field' and b2['n'] == mf:
                    return 'A'
        return None
    if k == 'Lit':
        return None
    if k in ('Ref', 'Cast'):
        return _abs(D, n['e'], mf, depth)
    if k == 'Un':
        return _abs(D, n['e'], mf, depth)
    if k == 'Index':
        b = n['e']
        while isinstance(b, dict) and b.get('k') in ('Ref', 'Un'):
            b = b['e']
        if isinstance(b, dict) and b.get('k') in ('Field', 'Local') and b.get('n') == mf:
            return 'A'
        return None
    if k == 'Bin':
        l, r = _abs(D, n['l'], mf, depth), _abs(D, n['r'], mf, depth)
        if l is None and r is None:
            return None
        ls = l if l is not None else (str(n['l']['v']) if n['l'].get('k') == 'Lit' else '_')
        rs = r if r is not None else (str(n['r']['v']) if n['r'].get('k') == 'Lit' else '_')
        return '(%s %s %s)' % (ls, n['op'], rs)
    if k in ('MCall', 'Call'):
        parts = ([n['r']] if k == 'MCall' else []) + list(n['a'])
        subs = [_abs(D, a, mf, depth) for a in parts]
        if all(x is None for x in subs):
            return None
        name = n['n'] if k == 'MCall' else (n['f']['d'].split('::')[-1] if n['f'].get('k') == 'Def' else 'f')
        return name + '(' + ','.join(x if x is not None else '_' for x in subs) + ')'
    if k == 'Block' and not n['st'] and 'e' in n:
        return _abs(D, n['e'], mf, depth)
    return None
