"""Class-hierarchy resolution of calls for inlining / call-graph closure (in-workspace impls only)."""
from .facts import parse_path, strip_generics


class CHA:
    def __init__(self, F, cap=8):
        self.F = F
        self.cap = cap
        self._impls = {}
        for fn in F.fns.values():
            if fn.trait and 'impl' in fn.raw:
                self._impls.setdefault((fn.trait, fn.name), []).append(fn)

    def targets(self, c, d=None):
        """bodies that a call with resolved callee c (declared d) may execute"""
        F = self.F
        if c in F.fns:
            fn = F.fns[c]
            out = [fn]
            # a provided trait method may be overridden
            if fn.raw.get('in_trait'):
                out += self._impls.get((fn.raw['in_trait'], fn.name), [])[: self.cap]
            return out
        # required trait method: no body -> all impls
        s = strip_generics(c)
        if '::' in s:
            tr, name = s.rsplit('::', 1)
            return self._impls.get((tr, name), [])[: self.cap]
        return []

    def inline_all(self):
        return lambda c, d, ev: self.targets(c, d)

    def inline_only(self, names):
        names = set(names)
        return lambda c, d, ev: self.targets(c, d) if parse_path(c)[1] in names else None
