"""Obligation engine: 'in function X there is a sink of kind K fed by sources S in context C'.

Obligations are data (python dicts in the rule modules):
  id     stable key (reports, known findings)
  fn     anchor (qualified name or def-path suffix);  crate optional
  depth  inline depth for in-workspace callees (default 0)
  kind   guard | try | call | sink | assign | assert_or_guard
  callee name (or set of names) for try/call/sink
  src    atoms that must all be in the sink's backward slice
         'F:Adt.field' exact | 'f:field' any-ADT field | 'c:name' call result | 'p:param' | 'd:Const'
  ctx    {'loop': [atoms that the loop iterable must contain]} | {'noloop': True} | {'cond': [atoms]}
  ctx    {'loop_over_own': [atoms]} -> if the event sits in a loop, the loop iterable must depend on these atoms
  whole  True -> loops named in ctx must range over the whole sequence (no skip/take/step_by/filter/sub-slice)
  why    one line of reason
"""
from . import flow
from .facts import parse_path, walk, kids

# circuit assertion sinks (A5), enumerated from CircuitBuilder's inherent impls and frozen with reasons
ASSERT_SINKS = {
    'connect': 'copy constraint between two targets',
    'connect_extension': 'copy constraint per limb',
    'connect_hashes': 'copy constraint per hash element',
    'connect_merkle_caps': 'copy constraint per cap entry',
    'connect_verifier_data': 'caps + digest connected',
    'conditional_assert_eq': 'conditional equality',
    'conditional_assert_eq_ext': 'conditional equality (extension)',
    'assert_zero': 'constrained to zero',
    'assert_one': 'constrained to one',
    'assert_bool': 'boolean constraint',
    'assert_leading_zeros': 'range check on the leading bits (grinding)',
    'range_check': 'range constraint',
    'verify_merkle_proof': 'merkle path to root',
    'verify_merkle_proof_to_cap': 'merkle path to cap',
    'verify_merkle_proof_to_cap_with_cap_index': 'merkle path to cap',
    'verify_merkle_proof_to_cap_with_cap_indices': 'merkle path to cap (variable degree)',
    'verify_batch_merkle_proof_to_cap_with_cap_index': 'batch merkle path to cap',
    'inverse': 'non-zero assertion',
    'split_le': 'bit decomposition is constrained',
    'assert_equal': 'equality',
}

PARTIAL = {'skip', 'take', 'step_by', 'filter', 'skip_while', 'take_while', 'split_at', 'split_first', 'split_last', 'first', 'last', 'nth'}


def atom_in(v, a):
    v = flow.flat(v)
    if a.startswith('F:') or a.startswith('d:'):
        if a in v:
            return True
        if a.startswith('d:'):
            nm = a[2:]
            return any(x.startswith('d:') and (x[2:] == nm or x[2:].endswith('::' + nm)) for x in v)
        return False
    if a.startswith('f:'):
        return flow.has_field(v, a[2:])
    if a.startswith('c:'):
        return flow.has_call(v, a[2:])
    if a.startswith('p:'):
        body = a[2:]
        if '.' in body:
            return any(x == a or x.startswith(a + '.') or x.startswith(a + '[') for x in v)
        return flow.has_param(v, body)
    raise ValueError('bad atom %r' % a)


def any_atom(v, alts):
    """alts: 'a|b|c' alternative atoms"""
    return any(atom_in(v, x) for x in alts.split('|'))


def missing(v, atoms):
    return [a for a in atoms if not any_atom(v, a)]


def iter_chain_names(node):
    """method names along the receiver chain of an iterable expression"""
    names = []
    n = node
    while isinstance(n, dict):
        k = n.get('k')
        if k == 'MCall':
            names.append(n['n'])
            n = n['r']
        elif k in ('Ref', 'Un', 'Cast', 'Field'):
            n = n['e']
        elif k == 'Index':
            # sub-slice by range literal
            i = n['i']
            if i.get('k') == 'Struct' and 'Range' in i.get('d', ''):
                names.append('[range]')
            n = n['e']
        elif k == 'Call':
            break
        else:
            break
    return names


def is_partial_iter(node):
    names = iter_chain_names(node)
    bad = [x for x in names if x in PARTIAL or x == '[range]']
    # also zip partners
    n = node
    while isinstance(n, dict) and n.get('k') == 'MCall':
        if n['n'] in ('zip', 'zip_eq'):
            for a in n['a']:
                bad += [x for x in iter_chain_names(a) if x in PARTIAL or x == '[range]']
        n = n['r']
    return bad


class Engine:
    def __init__(self, F, ck):
        self.F = F
        self.ck = ck
        self._flows = {}

    def resolve_fn(self, spec_fn, crate=None, trait=None):
        c = self.F.find(spec_fn, crate=crate, trait=trait)
        return c

    def flow_of(self, fn, depth=0, lits=False, only=None):
        key = (fn.d, depth, lits, only)
        if key not in self._flows:
            F = self.F
            if depth:
                if only:
                    inl = lambda c, d, ev: F.fns.get(c) if (c in F.fns and parse_path(c)[1] in only) else None
                else:
                    inl = lambda c, d, ev: F.fns.get(c)
            else:
                inl = None
            self._flows[key] = flow.Flow(F, fn, inline=inl, depth=depth, lits=lits)
        return self._flows[key]

    def events(self, fl, kind, callee=None):
        out = []
        for e in fl.events:
            if kind == 'guard' and e.kind == 'guard':
                out.append(e)
            elif kind == 'assert_or_guard' and e.kind in ('guard', 'assert'):
                out.append(e)
            elif kind == 'assert' and e.kind == 'assert':
                out.append(e)
            elif kind in ('try', 'call', 'sink') and e.kind == 'call':
                nm = e.name
                if kind == 'sink':
                    names = callee if callee else ASSERT_SINKS
                    if nm in names:
                        out.append(e)
                else:
                    names = list(callee) if isinstance(callee, (set, list, tuple)) else [callee]
                    # a callee that was renamed is recognised by its recorded signature
                    for n_ in list(names):
                        if isinstance(n_, str) and '::' not in n_:
                            rn = self.F.renamed_callee(n_)
                            if rn:
                                names.append(rn)
                    if (nm in names or e.q in names) and (kind == 'call' or e.tried):
                        out.append(e)
                        if e.callee and nm in names:
                            self.F.record_callee(nm, e.callee)
            elif kind == 'assign' and e.kind in ('assign', 'let'):
                out.append(e)
            elif kind == 'struct' and e.kind == 'struct':
                out.append(e)
            elif kind == 'ret' and e.kind == 'ret' and not e.stack:
                out.append(e)
        return out

    def order(self, rule, oid, fn_q, first, then, why, crate=None):
        """every call of `then` in fn is preceded by a call of `first` (program order of the evaluated body)"""
        cands = self.resolve_fn(fn_q, crate)
        if len(cands) != 1:
            self.ck.ob(rule, oid, False, 'ANCHOR-MISSING: %s resolves to %d functions' % (fn_q, len(cands)), fn_q)
            return
        fl = self.flow_of(cands[0])
        seen_first = False
        n_then = 0
        for e in fl.events:
            if e.kind != 'call':
                continue
            if e.name == first:
                seen_first = True
            elif e.name == then:
                n_then += 1
                if not seen_first:
                    self.ck.ob(rule, oid, False, 'ORDER: %s() is called in %s before %s(): %s' % (then, cands[0].qual, first, why), e.loc())
                    return
        self.ck.ob(rule, oid, n_then > 0 and seen_first, why if n_then and seen_first else 'calls %s/%s not both found in %s: %s' % (first, then, cands[0].qual, why), '%s:%d' % (cands[0].file, cands[0].line))

    def check(self, rule, spec):
        """Evaluate one obligation; record it on the Check. Returns the satisfying event or None."""
        ck = self.ck
        oid = spec['id']
        cands = self.resolve_fn(spec['fn'], spec.get('crate'), spec.get('trait'))
        if spec.get('free'):
            cands = [f for f in cands if f.owner is None]
        if len(cands) != 1:
            ck.ob(rule, oid, False, 'ANCHOR-MISSING: %s resolves to %d functions; obligation "%s" can no longer be checked' % (spec['fn'], len(cands), spec.get('why', '')), spec['fn'])
            return None
        fn = cands[0]
        # attempts: the row as written; then two refactoring-tolerant readings - (a) the check was moved into a helper of the same
        # file (callees of that file inlined to depth 2), (b) the callee of a `try`/`call` row was inlined into the anchor, so the
        # check is now an Err-guard fed by the same sources
        attempts = [(spec['kind'], None, '')]
        if spec['kind'] in ('try', 'call', 'guard', 'sink', 'assert_or_guard') and not spec.get('depth'):
            attempts.append((spec['kind'], 'helpers', ' (found through a helper function of the same file)'))
        if spec['kind'] in ('try',) and spec.get('src'):
            attempts.append(('guard', None, ' (the callee of this row has been inlined: an Err-guard fed by the same sources)'))
            attempts.append(('guard', 'helpers', ' (inlined form, inside a helper of the same file)'))
        first_best = None
        for kind, mode, note in attempts:
            if mode == 'helpers':
                fl = self.helper_flow(fn, spec.get('callee'), spec.get('lits', False))
            else:
                fl = self.flow_of(fn, spec.get('depth', 0), spec.get('lits', False), spec.get('only'))
            e, best, best_missing, partial = self._match(spec, fn, fl, kind)
            if partial:
                ck.ob(rule, oid, False, 'PARTIAL-ITERATION: the loop around this check ranges over a truncated sequence (%s): some elements are never checked. %s' % (','.join(partial), spec.get('why', '')), e.loc())
                return None
            if e is not None:
                ck.ob(rule, oid, True, '%s: %s%s' % (spec.get('why', ''), self._describe(e), note), e.loc())
                return e
            if first_best is None:
                first_best = (best, best_missing)
        best, best_missing = first_best
        if best is None:
            detail = 'no %s%s found in %s' % (spec['kind'], (' of ' + str(spec.get('callee'))) if spec.get('callee') else '', fn.qual)
            loc = '%s:%d' % (fn.file, fn.line)
        else:
            detail = 'closest %s at %s lacks: %s' % (spec['kind'], best.loc(), ', '.join(best_missing))
            loc = best.loc()
        ck.ob(rule, oid, False, 'MISSING CHECK in %s: %s. %s' % (fn.qual, detail, spec.get('why', '')), loc)
        return None

    def helper_flow(self, fn, callee, lits=False):
        """the anchor with the non-trait callees defined in the same file inlined (depth 2); the row's own callee stays a call"""
        names = set(callee) if isinstance(callee, (set, list, tuple)) else ({callee} if callee else set())
        key = (fn.d, 'helpers', lits, tuple(sorted(names)))
        if key not in self._flows:
            F = self.F

            def inl(c, d, ev):
                f2 = F.fns.get(c)
                if f2 is None or f2.body is None or f2.file != fn.file or f2.trait or f2.name in names or f2.d == fn.d:
                    return None
                return f2
            self._flows[key] = flow.Flow(F, fn, inline=inl, depth=2, lits=lits)
        return self._flows[key]

    def _match(self, spec, fn, fl, kind):
        """(satisfying event | None, closest event, what it lacks, partial-iteration adaptors)"""
        evs = self.events(fl, kind, spec.get('callee') if kind == spec['kind'] else None)
        best = None
        best_missing = None
        for e in evs:
            if spec.get('maxstack') is not None and len(e.stack) > spec['maxstack']:
                continue
            if kind == 'assign':
                if spec.get('var') and spec['var'] not in self._assign_names(e):
                    continue
            deps = e.deps()
            miss = missing(deps, spec.get('src', []))
            miss = self._rename_tolerant(fn, deps, spec.get('src', []), miss)
            cm = self._ctx_missing(e, spec.get('ctx'))
            allm = miss + cm
            if not allm:
                if spec.get('whole'):
                    bad = []
                    for fr in e.ctx:
                        if fr[0] == 'loop' and fr[3] is not None:
                            bad += is_partial_iter(fr[3])
                    if bad:
                        return e, e, [], bad
                return e, e, [], None
            if best_missing is None or len(allm) < len(best_missing):
                best, best_missing = e, allm
        return None, best, best_missing, None

    def _rename_tolerant(self, fn, deps, src, miss):
        """a source `p:<name>` whose name is no longer a parameter of the anchor (renamed parameter) is satisfied by the flow
        of some parameter that the obligation does not otherwise mention - renaming a parameter is not an alarm"""
        if not miss:
            return miss
        from .facts import pat_binds
        pnames = set()
        for p in fn.params:
            for b in pat_binds(p):
                pnames.add(b['n'])
        mentioned = set()
        for a in src:
            for alt in a.split('|'):
                if alt.startswith('p:'):
                    mentioned.add(alt[2:].split('.')[0])
        present = {x[2:].split('.')[0].replace('[]', '') for x in flow.flat(deps) if x.startswith('p:')}
        spare = (present & pnames) - mentioned
        out = []
        for a in miss:
            alts = a.split('|')
            roots = [x[2:].split('.')[0] for x in alts if x.startswith('p:')]
            if roots and len(roots) == len(alts) and all(r not in pnames for r in roots) and spare:
                spare = set(list(spare)[1:])      # consume one unexplained parameter flow per renamed name
                continue
            out.append(a)
        return out

    def _assign_names(self, e):
        if e.kind == 'let':
            return e.extra or []
        l = e.extra
        names = []
        while isinstance(l, dict):
            if l.get('k') == 'Local':
                names.append(l['n'])
                break
            l = l.get('e')
        return names

    def _ctx_missing(self, e, ctx):
        if not ctx:
            return []
        miss = []
        if ctx.get('noloop') and e.in_loop():
            # only loops of the anchor frame count
            if any(fr[0] == 'loop' for fr in e.ctx):
                miss.append('ctx:not-in-loop')
        if 'loop' in ctx:
            ok = False
            for fr in e.ctx:
                if fr[0] == 'loop' and (not ctx['loop'] or not missing(fr[1], ctx['loop'])):
                    ok = True
            if not ok:
                miss.append('ctx:loop-over(%s)' % ','.join(ctx['loop']))
        if 'loop_over_own' in ctx:
            # an element-wise check may sit in a loop only if the loop ranges over (the length of) the compared sequence itself:
            # a bound taken from elsewhere (a configuration number, a height instead of a length) covers only some elements
            for fr in e.ctx:
                if fr[0] == 'loop' and missing(fr[1], ctx['loop_over_own']):
                    miss.append('ctx:element-wise check in a loop whose range is not taken from the compared sequence (%s)' % ','.join(sorted(a for a in flow.flat(fr[1]) if a[:2] in ('p:', 'F:'))[:4]))
                    break
        if ctx.get('uncond'):
            # no `if` of the anchor's own frames around the event (a check that runs only for some inputs)
            for fr in e.ctx:
                if fr[0] == 'if' and flow.flat(fr[1]):
                    miss.append('ctx:unconditional (found under a condition on %s)' % ','.join(sorted(a for a in flow.flat(fr[1]) if a[:2] in ('p:', 'F:'))[:3]))
                    break
        if 'only_cond' in ctx:
            # the event may be conditional, but only on (the presence of) the listed parameters: a check that additionally depends
            # on another optional part runs for fewer inputs than it should (`if let Some(a) = a {..} else if let Some(b) = b {check(b)}`)
            allowed = set(ctx['only_cond'])
            for fr in e.ctx:
                if fr[0] != 'if':
                    continue
                roots = {a[2:].split('.')[0].split('[')[0] for a in flow.flat(fr[1]) if a.startswith('p:')}
                foreign = sorted(roots - allowed)
                if foreign:
                    miss.append('ctx:conditional only on %s (found under a condition on %s)' % ('/'.join(sorted(allowed)), ','.join(foreign)))
                    break
        if 'cond' in ctx:
            ok = False
            for fr in e.ctx:
                if fr[0] == 'if' and not missing(fr[1], ctx['cond']):
                    ok = True
            if not ok:
                miss.append('ctx:under-condition(%s)' % ','.join(ctx['cond']))
        return miss

    def _describe(self, e):
        return '%s%s at %s' % (e.kind, (' ' + e.q) if e.q else '', e.loc())
