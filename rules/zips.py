"""R05.6 / R09.5 - no checking loop can be silently truncated by an unpinned `zip` partner.

Slots: every `Iterator::zip` (not `zip_eq`) executed inside the verifier files, seen from a verification
entry point with callees inlined so operands are expressed in the entry's parameters.
Rule: every zipped operand that is not derived from trusted data only must have its length pinned: some
error-returning guard in the same closure compares `.len()` of exactly that access path.
"""
from . import flow
from .facts import parse_path


def untrusted_paths(v, trusted_roots):
    out = set()
    for a in flow.flat(v):
        if a.startswith('p:'):
            root = a[2:].split('.')[0].replace('[]', '')
            if root not in trusted_roots:
                out.add(a)
    return out


def pinned_paths(fl):
    """access paths that occur, together with a len()/is_some()/is_none() call, in an Err-guard"""
    pins = set()
    for e in fl.events:
        if e.kind == 'guard':
            pins |= e.eq_pins
    return pins


def check_zips(ck, rule, F, entry_fn, trusted_roots, files, depth=4, label=''):
    inl = lambda c, d, ev: F.fns.get(c)
    fl = flow.Flow(F, entry_fn, inline=inl, depth=depth)
    pins = pinned_paths(fl)
    n = 0
    seen = set()
    for e in fl.events:
        if e.kind != 'call' or e.name != 'zip':
            continue
        if not any(e.fn.file.endswith(f) for f in files):
            continue
        ops = [('left', e.recv)] + [('right', a) for a in e.args]
        for side, v in ops:
            up = untrusted_paths(v, trusted_roots)
            if not up:
                continue
            # a computed partner (map/collect of another sequence) inherits that sequence's paths
            unp = sorted(a for a in up if a not in pins)
            key = '%s:%s:%s:%s' % (label or entry_fn.name, e.fn.name, side, '+'.join(sorted({x[2:].split('.')[0].replace('[]', '') for x in up})))
            if key in seen:
                continue
            seen.add(key)
            n += 1
            # pinned if EVERY untrusted path that determines the operand's length is pinned; since we cannot tell
            # which path determines the length, require that at least one path of the operand is pinned and that
            # none of its *root collections* is wholly unpinned
            # the paths that determine the operand's LENGTH are the minimal ones (no proper prefix among the others);
            # longer paths only feed element values
            def is_prefix(p, q):
                return q != p and (q.startswith(p + '.') or q.startswith(p + '['))
            minimal = [a for a in up if not any(is_prefix(b, a) for b in up)]
            bad_roots = sorted(a[2:] for a in minimal if a not in pins)
            ok = not bad_roots
            ck.ob(rule, key, ok,
                  ('zip operand (%s) in %s is built from %s whose length no guard pins: a short sequence silently skips the checks of this loop' % (side, e.fn.qual, ', '.join(bad_roots)))
                  if not ok else 'zip operand length pinned by a guard on %s' % ', '.join(sorted(p[2:] for p in up if p in pins))[:160],
                  e.loc())
    return n
