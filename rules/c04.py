"""C04 - Fiat-Shamir challenges depend on the whole statement and prior transcript.

R04.1 completeness   every statement item and every prover message of the proof type family is absorbed (verifier side,
                     native and in-circuit), slots = struct fields enumerated by the type checker
R04.2 ordering       each named challenge is squeezed after the absorptions it must follow (protocol partial order)
R04.3 agreement      prover / native verifier / in-circuit verifier produce the same normalised transcript
R04.4 sponge state   the duplex sponge invalidates buffered outputs on absorb and absorbs pending input before squeeze
R04.5 layering       nothing outside iop::challenger touches the sponge state, except the grinding shortcut
R04.6 wholeness      absorptions are neither truncated nor conditional on foreign data; digest encoders drop nothing
"""
from . import flow, transcript, ob
from .facts import parse_path, walk, callee, kids

UNIT = {
    'observe_element': ('obs', 'elem', False), 'observe_elements': ('obs', 'elem', True),
    'observe_hash': ('obs', 'hash', False), 'observe_cap': ('obs', 'hash', True),
    'observe_extension_element': ('obs', 'ext', False), 'observe_extension_elements': ('obs', 'ext', True),
    'get_challenge': ('sq', 'elem', False), 'get_n_challenges': ('sq', 'elem', True),
    'get_extension_challenge': ('sq', 'ext', False), 'get_n_extension_challenges': ('sq', 'ext', True),
    'get_hash': ('sq', 'hash', False),
}


def _literal_array(n):
    while isinstance(n, dict) and n.get('k') in ('Ref', 'Cast', 'Un'):
        n = n['e']
    return isinstance(n, dict) and n.get('k') in ('Array', 'Arr') or (isinstance(n, dict) and n.get('k') == 'Call' and False)


def sig(t):
    k, u, plural = UNIT[t.method]
    if plural and k == 'obs':
        # observe_elements(&[x]) with a literal array absorbs a fixed, visible number of items: not a loop
        args = t.ev.node.get('a', []) if getattr(t, 'ev', None) is not None else []
        if args and _literal_array(args[-1]):
            plural = False
    looped = plural or ('loop' in t.shape)
    return (k, u, looped)


def conditional(t):
    return 'if' in t.shape


def align(a, b):
    """Align two transcripts.  Unconditional events must match one to one in order; an event under an `if` may stay
    unmatched.  Returns (ok, first_problem)."""
    n, m = len(a), len(b)
    INF = 10 ** 9
    # dp[i][j] = min number of skipped conditional events aligning a[i:], b[j:]
    dp = [[INF] * (m + 1) for _ in range(n + 1)]
    dp[n][m] = 0
    for i in range(n, -1, -1):
        for j in range(m, -1, -1):
            if i == n and j == m:
                continue
            best = INF
            if i < n and j < m and sig(a[i]) == sig(b[j]):
                best = min(best, dp[i + 1][j + 1])
            if i < n and conditional(a[i]):
                best = min(best, dp[i + 1][j] + 1)
            if j < m and conditional(b[j]):
                best = min(best, dp[i][j + 1] + 1)
            dp[i][j] = best
    if dp[0][0] < INF:
        # collect skipped
        skipped = []
        i = j = 0
        while i < n or j < m:
            if i < n and j < m and sig(a[i]) == sig(b[j]) and dp[i][j] == dp[i + 1][j + 1]:
                i += 1
                j += 1
            elif i < n and conditional(a[i]) and dp[i][j] == dp[i + 1][j] + 1:
                skipped.append(('A', a[i]))
                i += 1
            else:
                skipped.append(('B', b[j]))
                j += 1
        return True, skipped
    # find first divergence greedily
    i = j = 0
    while i < n and j < m and sig(a[i]) == sig(b[j]):
        i += 1
        j += 1
    return False, (a[i] if i < n else None, b[j] if j < m else None)


def leaf_fields(F, adt_path, skip=()):
    a = F.adts.get(adt_path)
    return [f for f, t, _ in a['variants'][0]['f'] if f not in skip] if a else None


SIDES = {
    'plonk': dict(
        V=('plonk::verifier::verify', 'plonky2', ('get_challenges', 'get_public_inputs_hash', 'to_fri_openings')),
        P=('plonk::prover::prove_with_partition_witness', 'plonky2', ('to_fri_openings',)),
        C=('CircuitBuilder::verify_proof', 'plonky2', ('get_challenges', 'to_fri_openings')),
    ),
    'stark': dict(
        V=('starky::verifier::verify_stark_proof', 'starky', ('get_challenges', 'to_fri_openings')),
        P=('starky::prover::prove', 'starky', ('prove_with_commitment', 'to_fri_openings')),
        C=('starky::recursive_verifier::verify_stark_proof_circuit', 'starky', ('get_challenges', 'to_fri_openings')),
    ),
}

# R04.1: what must be absorbed (type-qualified field atoms; fields are enumerated from the ADTs at run time)
FRI_PROOF_SKIP = ('query_round_proofs',)          # answers to queries are checked, not absorbed (drawn after everything)
REQUIRED = {
    'plonk': dict(
        V=[('plonky2::fri::FriParams', (), 'statement: FRI parameters'),
           ('plonky2::fri::FriConfig', (), 'statement: FRI configuration'),
           ('plonky2::plonk::proof::ProofWithPublicInputs', ('proof',), 'statement: public inputs'),
           ('plonky2::plonk::proof::Proof', ('opening_proof', 'openings'), 'prover message'),
           ('plonky2::plonk::proof::OpeningSet', (), 'prover message: opening'),
           ('plonky2::fri::proof::FriProof', FRI_PROOF_SKIP, 'prover message (FRI)')],
        V_extra=['F:VerifierOnlyCircuitData.circuit_digest'],
        C=[('plonky2::fri::FriParams', (), 'statement: FRI parameters'),
           ('plonky2::fri::FriConfig', (), 'statement: FRI configuration'),
           ('plonky2::plonk::proof::ProofWithPublicInputsTarget', ('proof',), 'statement: public inputs'),
           ('plonky2::plonk::proof::ProofTarget', ('opening_proof', 'openings'), 'prover message'),
           ('plonky2::plonk::proof::OpeningSetTarget', (), 'prover message: opening'),
           ('plonky2::fri::proof::FriProofTarget', FRI_PROOF_SKIP, 'prover message (FRI)')],
        C_extra=['F:VerifierCircuitTarget.circuit_digest'],
    ),
    'stark': dict(
        V=[('starky::config::StarkConfig', (), 'statement: STARK configuration'),
           ('plonky2::fri::FriConfig', (), 'statement: FRI configuration'),
           ('starky::proof::StarkProofWithPublicInputs', ('proof',), 'statement: public inputs'),
           ('starky::proof::StarkProof', ('opening_proof', 'openings'), 'prover message'),
           ('starky::proof::StarkOpeningSet', (), 'prover message: opening'),
           ('plonky2::fri::proof::FriProof', FRI_PROOF_SKIP, 'prover message (FRI)')],
        V_extra=[],
        C=[('starky::config::StarkConfig', (), 'statement: STARK configuration'),
           ('plonky2::fri::FriConfig', (), 'statement: FRI configuration'),
           ('starky::proof::StarkProofWithPublicInputsTarget', ('proof',), 'statement: public inputs'),
           ('starky::proof::StarkProofTarget', ('opening_proof', 'openings', 'degree_bits'), 'prover message'),
           ('starky::proof::StarkOpeningSetTarget', (), 'prover message: opening'),
           ('plonky2::fri::proof::FriProofTarget', FRI_PROOF_SKIP, 'prover message (FRI)')],
        C_extra=[],
    ),
}

# R04.2: challenge name (as bound in the verifier's code) -> fields that must have been absorbed before it is squeezed
ORDER = {
    'plonk': {
        'plonk_betas': ['F:FriParams.degree_bits', 'F:FriParams.reduction_arity_bits', 'F:FriParams.hiding', 'F:FriConfig.rate_bits', 'F:FriConfig.cap_height',
                        'F:FriConfig.proof_of_work_bits', 'F:FriConfig.num_query_rounds', 'F:FriConfig.reduction_strategy',
                        'f:circuit_digest', 'f:public_inputs', 'f:wires_cap'],
        'plonk_gammas': ['f:circuit_digest', 'f:public_inputs', 'f:wires_cap'],
        'plonk_alphas': ['f:wires_cap', 'f:plonk_zs_partial_products_cap'],
        'plonk_zeta': ['f:plonk_zs_partial_products_cap', 'f:quotient_polys_cap'],
        'fri_alpha': ['f:quotient_polys_cap', 'f:constants', 'f:plonk_sigmas', 'f:wires', 'f:plonk_zs', 'f:plonk_zs_next', 'f:partial_products', 'f:quotient_polys', 'f:lookup_zs', 'f:lookup_zs_next|f:next_lookup_zs'],
        'fri_betas': ['f:quotient_polys', 'f:commit_phase_merkle_caps'],
        'fri_pow_response': ['f:commit_phase_merkle_caps', 'f:final_poly', 'f:pow_witness'],
        'fri_query_indices': ['f:final_poly', 'f:pow_witness'],
    },
    'stark': {
        'beta': ['f:public_inputs', 'f:security_bits', 'f:num_challenges', 'F:FriConfig.rate_bits', 'F:FriConfig.cap_height', 'F:FriConfig.proof_of_work_bits',
                 'F:FriConfig.num_query_rounds', 'F:FriConfig.reduction_strategy', 'f:trace_cap'],
        'gamma': ['f:public_inputs', 'f:trace_cap'],
        'stark_alphas_prime': ['f:trace_cap', 'f:auxiliary_polys_cap'],
        'stark_alphas': ['f:trace_cap', 'f:auxiliary_polys_cap'],
        'stark_zeta': ['f:auxiliary_polys_cap', 'f:quotient_polys_cap'],
        'fri_alpha': ['f:quotient_polys_cap', 'f:local_values', 'f:next_values', 'f:auxiliary_polys', 'f:auxiliary_polys_next', 'f:ctl_zs_first', 'f:quotient_polys'],
        'fri_betas': ['f:quotient_polys', 'f:commit_phase_merkle_caps'],
        'fri_pow_response': ['f:commit_phase_merkle_caps', 'f:final_poly', 'f:pow_witness'],
        'fri_query_indices': ['f:final_poly', 'f:pow_witness'],
    },
}


def run(F, ck, tier):
    ck.rule('R04.1', 'transcript completeness: every field of the statement and of the proof type family (query answers excepted) flows into an absorption of the verifier transcript (native and in-circuit)')
    ck.rule('R04.2', 'challenge ordering: each named challenge is squeezed only after the absorptions of the messages it must follow')
    ck.rule('R04.3', 'prover / native verifier / in-circuit verifier transcripts are the same sequence of (absorb|squeeze, unit, looped) events; only events under a condition may be unmatched and each unmatched one is reviewed')
    ck.rule('R04.4', 'duplex sponge typestate in Challenger and RecursiveChallenger')
    ck.rule('R04.5', 'only iop::challenger (and the reviewed grinding shortcut fri_proof_of_work) touches sponge_state / input_buffer / output_buffer')
    run_protocols(F, ck)
    # ---------------------------------------------------------------- R04.4
    sponge_typestate(F, ck)
    invalidate_with_push(F, ck, 'R04.4')
    # ---------------------------------------------------------------- R04.5
    layering(F, ck)
    ck.decided += ['verifier transcripts (native + circuit, PLONK + STARK) absorb every statement and proof field', 'each challenge is squeezed after what it must follow',
                   'prover, verifier and circuit transcripts agree', 'sponge buffer typestate', 'sponge state is private to the challenger']
    ck.undecided += ['collision resistance / random-oracle behaviour of the permutation (C13)', 'that absorbed encodings are injective']
    return ('Decides the structural core of C04: the transcript is the ordered sequence of observe/get calls on the challenger, extracted from the typed program with all transcript helpers inlined; '
            'completeness is checked against the struct fields enumerated by the type checker, ordering against a protocol table, and the three sides are aligned. Hash behaviour is not decided.')


def run_protocols(F, ck):
    trs = {}
    for proto, sides in SIDES.items():
        for side, (q, crate, extra) in sides.items():
            cands = [f for f in F.find(q, crate=crate) if not f.trait]
            if len(cands) != 1:
                ck.ob('R04.3', 'anchor:%s.%s' % (proto, side), False, 'ANCHOR-MISSING: transcript function %s (%d candidates)' % (q, len(cands)), q)
                continue
            tev, fl = transcript.extract(F, cands[0], extra_inline=extra)
            trs[(proto, side)] = (tev, fl, cands[0])
    ck.floor('R04.3', 'transcript functions extracted', len(trs), 3 * len(SIDES))
    nev = sum(len(v[0]) for v in trs.values())
    ck.floor('R04.3', 'transcript events', nev, 70 * len(SIDES))

    # ---------------------------------------------------------------- R04.1
    for proto in SIDES:
        for side in ('V', 'C'):
            if (proto, side) not in trs:
                continue
            tev, fl, fn = trs[(proto, side)]
            absorbed = flow.EMPTY
            for t in tev:
                if t.kind == 'obs':
                    absorbed = absorbed | t.deps
            nreq = 0
            for adt, skip, what in REQUIRED[proto][side]:
                fields = leaf_fields(F, adt, skip)
                if fields is None:
                    ck.ob('R04.1', 'anchor:%s' % adt, False, 'ANCHOR-MISSING: struct %s not found; its fields can no longer be required in the transcript' % adt, adt)
                    continue
                short = adt.split('::')[-1]
                for f in fields:
                    # nested config structs are covered through their own entry
                    if (short, f) in (('FriParams', 'config'), ('StarkConfig', 'fri_config')):
                        continue
                    nreq += 1
                    atom = 'F:%s.%s' % (short, f)
                    ok = atom in absorbed
                    ck.ob('R04.1', 'absorbed:%s.%s:%s.%s' % (proto, side, short, f), ok,
                          ('%s field %s.%s never flows into an absorption of the %s %s transcript (%s): challenges do not depend on it' % (what, short, f, proto, 'native verifier' if side == 'V' else 'in-circuit verifier', fn.qual))
                          if not ok else '%s absorbed' % what, '%s:%d' % (fn.file, fn.line))
            for atom in REQUIRED[proto][side + '_extra']:
                nreq += 1
                ok = atom in absorbed
                ck.ob('R04.1', 'absorbed:%s.%s:%s' % (proto, side, atom[2:]), ok, ('%s is never absorbed by %s' % (atom[2:], fn.qual)) if not ok else 'absorbed', '%s:%d' % (fn.file, fn.line))
            ck.floor('R04.1', 'required absorptions for %s.%s' % (proto, side), nreq, 20)

    # ---------------------------------------------------------------- R04.6
    whole_absorptions(F, ck, trs)

    # ---------------------------------------------------------------- R04.2
    for proto in SIDES:
        for side in ('V', 'C'):
            if (proto, side) not in trs:
                continue
            tev, fl, fn = trs[(proto, side)]
            names = transcript.name_squeezes(fl, tev)
            absorbed = flow.EMPTY
            found = set()
            for t in tev:
                if t.kind == 'obs':
                    absorbed = absorbed | t.deps
                    continue
                cand = names.get(t.tag)
                if not cand:
                    continue
                cand = {{'stark_betas': 'beta'}.get(x, x) for x in cand}
                hit = [x for x in cand if x in ORDER[proto]]
                if not hit:
                    continue
                nm = hit[0]
                req = ORDER[proto][nm]
                if nm in found and nm not in ('beta', 'gamma'):
                    continue
                found.add(nm)
                miss = ob.missing(absorbed, req)
                # in-loop challenges: the absorption of the loop element precedes in the same iteration (event order inside the body)
                ck.ob('R04.2', 'order:%s.%s:%s' % (proto, side, nm), not miss,
                      ('challenge %s is squeezed in %s before %s has been absorbed: the prover can choose that message after seeing the challenge' % (nm, t.fn.qual, ', '.join(m[2:] for m in miss)))
                      if miss else 'squeezed after %s' % ', '.join(r[2:] for r in req[-3:]), t.loc)
            for nm in ORDER[proto]:
                if nm not in found:
                    ck.ob('R04.2', 'order:%s.%s:%s' % (proto, side, nm), False, 'challenge %s of the %s transcript was not found in %s (renamed or removed): its ordering obligation cannot be checked' % (nm, proto, fn.qual), '%s:%d' % (fn.file, fn.line))

    # ---------------------------------------------------------------- R04.3
    REVIEWED_SKIPS = {
        # (proto, pair, side-letter, function, unit-signature) -> reason
        ('plonk', 'V~C', 'A', 'fri_challenges', ('obs', 'elem', True)): 'native padding with zero caps when the proof was made for a circuit with more query steps; the circuit uses the padded target shape',
        ('plonk', 'V~C', 'A', 'fri_challenges', ('sq', 'ext', True)): 'squeeze that accompanies the zero-cap padding',
        ('plonk', 'V~C', 'A', 'fri_challenges', ('obs', 'ext', True)): 'native padding of the final polynomial with zero coefficients',
        ('stark', 'V~C', 'A', 'fri_challenges', ('obs', 'elem', True)): 'native padding with zero caps (variable-degree recursion)',
        ('stark', 'V~C', 'A', 'fri_challenges', ('sq', 'ext', True)): 'squeeze that accompanies the zero-cap padding',
        ('stark', 'V~C', 'A', 'fri_challenges', ('obs', 'ext', True)): 'native padding of the final polynomial',
    }
    for proto in SIDES:
        for x, y in (('V', 'P'), ('V', 'C')):
            if (proto, x) not in trs or (proto, y) not in trs:
                continue
            a, b = trs[(proto, x)][0], trs[(proto, y)][0]
            ok, info = align(a, b)
            key = 'agree:%s:%s~%s' % (proto, x, y)
            if not ok:
                ta, tb = info
                ck.ob('R04.3', key, False, 'transcripts of %s and %s diverge: %s has %s where %s has %s' % (
                    trs[(proto, x)][2].qual, trs[(proto, y)][2].qual, x, ('%s %s at %s' % (ta.kind, ta.method, ta.loc)) if ta else 'nothing more',
                    y, ('%s %s at %s' % (tb.kind, tb.method, tb.loc)) if tb else 'nothing more'), (ta or tb).loc if (ta or tb) else None)
                continue
            ck.ob('R04.3', key, True, '%d and %d events align' % (len(a), len(b)), trs[(proto, x)][2].file)
            squeeze_counts(F, ck, proto, x, y, a, b, info)
            for which, t in info:
                rk = (proto, '%s~%s' % (x, y), which, t.fn.name, sig(t))
                reason = REVIEWED_SKIPS.get(rk)
                k2 = 'unmatched:%s:%s~%s:%s:%s:%s' % (proto, x, y, which, t.fn.name, '/'.join(map(str, sig(t))))
                ck.ob('R04.3', k2, reason is not None, ('reviewed asymmetry: ' + reason) if reason else
                      'conditional %s event %s in %s has no counterpart on the other side (%s vs %s)' % (t.kind, t.method, t.fn.qual, trs[(proto, x)][2].qual, trs[(proto, y)][2].qual), t.loc)
                if reason is not None:
                    # the reviewed padding happens exactly when the caller supplies the circuit's size (an Option parameter):
                    # a padding step that additionally depends on other data is applied for some proofs only, and the
                    # in-circuit transcript (which always has the padded shape) then diverges for the others
                    allowed = PADDING_CONDITION[sig(t)]
                    own = frozenset(a for a in t.fn_param_names() if a in allowed) if hasattr(t, 'fn_param_names') else None
                    foreign = []
                    for fr_ in t.ctx:
                        if fr_[0] != 'if' or not (isinstance(fr_[2], dict) and fr_[2].get('s', '').startswith(t.fn.file)):
                            continue
                        for n_ in walk(fr_[2].get('c') or {}):
                            if n_.get('k') == 'Local' and n_.get('n') not in allowed and n_.get('n') in _param_names(t.fn):
                                foreign.append(n_['n'])
                            if n_.get('k') == 'Local' and n_.get('n') not in _param_names(t.fn):
                                # a local: look at what it is computed from
                                foreign += [m for m in _local_sources(t.fn, n_) if m not in allowed]
                    foreign = sorted(set(foreign))
                    ck.ob('R04.3', k2 + ':condition', not foreign, 'padding applied whenever %s is supplied' % '/'.join(sorted(allowed)) if not foreign else
                          'the reviewed padding step (%s in %s) now also depends on %s: it is skipped for some proofs, for which the in-circuit transcript - always of the padded shape - no longer matches' %
                          (t.method, t.fn.qual, ', '.join(foreign)), t.loc)
    # FRI tail of the batch prover against the verifier's fri_challenges
    if 'plonk' not in SIDES:
        return
    bp = F.one('batch_fri::prover::batch_fri_proof', crate='plonky2')
    fc = [f for f in F.find('Challenger::fri_challenges', crate='plonky2')]
    if bp is None or len(fc) != 1:
        ck.ob('R04.3', 'anchor:batch_fri', False, 'ANCHOR-MISSING: batch_fri_proof / Challenger::fri_challenges')
    else:
        a, _ = transcript.extract(F, fc[0])
        b, _ = transcript.extract(F, bp)
        # the verifier's fri_challenges starts with the alpha squeeze which the oracle (not batch_fri_proof) performs
        a2 = [t for t in a][1:]
        ok, info = align(a2, b)
        ck.ob('R04.3', 'agree:batch_fri:V~P', ok, ('%d and %d events align' % (len(a2), len(b))) if ok else 'batch_fri_proof transcript diverges from Challenger::fri_challenges at %s / %s' % info, fc[0].file)



DROPPING = ob.PARTIAL | {'chunks_exact', 'rchunks_exact', 'array_chunks', 'as_chunks', 'truncate', 'pop', 'drain'}


def _root_local(n):
    while isinstance(n, dict):
        if n.get('k') == 'Local':
            return n.get('n')
        n = n.get('e') if n.get('k') in ('Field', 'Index', 'Ref', 'Un', 'Cast') else (n.get('r') if n.get('k') == 'MCall' else None)
    return None


def _partial_in(node, only_root=None):
    """partial-iteration adaptors / sub-slices anywhere inside an expression (only_root: sub-slices count only when taken of
    that variable - a sub-slice of a freshly zeroed local used as a copy destination drops nothing)"""
    bad = []
    for x in walk(node):
        if x.get('k') == 'MCall' and x.get('n') in DROPPING:
            bad.append(x['n'])
        elif x.get('k') == 'Index' and x['i'].get('k') == 'Struct' and 'Range' in x['i'].get('d', ''):
            if only_root is None or _root_local(x['e']) == only_root:
                bad.append('[range]')
    return bad


def _own_condition(cond, deps):
    """a condition that only asks whether the absorbed value itself is present (if let Some(cap) = &proof.cap {..})"""
    mine = {a for a in flow.flat(deps) if a[:2] in ('F:', 'p:')}
    for a in flow.flat(cond):
        if a[:2] == 'p:':
            if not any(m == a or m.startswith(a + '.') or m.startswith(a + '[') or a.startswith(m + '.') or a.startswith(m + '[') for m in mine if m[:2] == 'p:'):
                return False
        elif a[:2] == 'F:' and a not in mine:
            # a parent struct of the absorbed field (proof_with_pis.proof) is part of the same access path
            short = a[2:].split('.')[1]
            if not any(('.' + short + '.') in m or m.endswith('.' + short) for m in mine if m[:2] == 'p:'):
                return False
    return True


def whole_absorptions(F, ck, trs):
    ck.rule('R04.6', 'absorptions are whole and unconditional: no absorbing loop ranges over a truncated sequence, no absorbed argument is a truncated view, each required field has an absorption that is conditional '
                     'on nothing but the presence of that field itself, and the hash-output encoders used for absorption drop nothing')
    n = 0
    for (proto, side), (tev, fl, fn) in sorted(trs.items()):
        seen = set()
        for t in tev:
            if t.kind != 'obs':
                continue
            bad = []
            for fr in t.ctx:
                if fr[0] == 'loop' and len(fr) > 3 and fr[3] is not None:
                    bad += ob.is_partial_iter(fr[3])
            for a in t.ev.node.get('a', []):
                bad += _partial_in(a)
                # a local that was resized in place before being absorbed (an explicit truncate of the prover's own polynomial is not meant)
                rl = a
                while isinstance(rl, dict) and rl.get('k') in ('Ref', 'Un', 'Cast', 'Field'):
                    rl = rl['e']
                if isinstance(rl, dict) and rl.get('k') == 'Local':
                    for y in walk(t.fn.body):
                        if y.get('k') == 'MCall' and y.get('n') in ('resize', 'resize_with'):      # 'pad to length n' also cuts a longer message down to n
                            ry = y['r']
                            while isinstance(ry, dict) and ry.get('k') in ('Ref', 'Un', 'Field'):
                                ry = ry['e']
                            if isinstance(ry, dict) and ry.get('k') == 'Local' and ry.get('id') == rl.get('id'):
                                bad.append(y['n'] + '()')
            key = 'whole:%s.%s:%s:%s' % (proto, side, t.fn.name, t.method)
            if key in seen and not bad:
                continue
            seen.add(key)
            n += 1
            ck.ob('R04.6', key, not bad, 'absorbs the whole value' if not bad else
                  'TRUNCATED ABSORPTION in %s: %s absorbs a truncated sequence (%s): the remaining elements of the message do not influence any challenge' % (t.fn.qual, t.method, ','.join(bad)), t.loc)
    ck.floor('R04.6', 'absorption sites examined', n, 30)
    # required fields: at least one absorption not conditional on foreign data
    for (proto, side), (tev, fl, fn) in sorted(trs.items()):
        if side not in ('V', 'C'):
            continue
        for adt, skip, what in REQUIRED[proto][side]:
            fields = leaf_fields(F, adt, skip) or []
            short = adt.split('::')[-1]
            for f in fields:
                atom = 'F:%s.%s' % (short, f)
                evs = [t for t in tev if t.kind == 'obs' and atom in t.deps]
                if not evs:
                    continue      # R04.1 reports it
                free = None
                foreign = None
                for t in evs:
                    conds = [fr for fr in t.ctx if fr[0] == 'if']
                    bad = [fr for fr in conds if not _own_condition(fr[1], t.deps)]
                    if not bad:
                        free = t
                        break
                    foreign = (t, bad[0])
                if free is None:
                    t, fr = foreign
                    ck.ob('R04.6', 'uncond:%s.%s:%s.%s' % (proto, side, short, f), False,
                          'CONDITIONAL ABSORPTION: %s.%s is absorbed by %s only under a condition on %s: when the condition is false the message is not bound by any challenge' %
                          (short, f, t.fn.qual, ', '.join(sorted(a[2:] for a in flow.flat(fr[1]) if a[:2] in ('F:', 'p:'))[:4])), t.loc)
                else:
                    ck.ob('R04.6', 'uncond:%s.%s:%s.%s' % (proto, side, short, f), True, 'absorbed unconditionally (or only conditional on its own presence)', free.loc)
    # encoders
    encs = []
    for i in F.impls_of('GenericHashOut'):
        for f in F.fns.values():
            if f.raw.get('impl') == i['d'] and f.name in ('to_vec', 'to_bytes'):
                encs.append(f)
    ck.floor('R04.6', 'hash-output encoders (GenericHashOut::to_vec / to_bytes)', len(encs), 4)
    # the absorbing primitives themselves (observe_cap loops over the cap, observe_elements over the slice, ...)
    prims = [f for f in F.fns.values() if f.crate == 'plonky2' and f.file.endswith('iop/challenger.rs') and f.name.startswith('observe_') and f.body is not None]
    ck.floor('R04.6', 'absorbing primitives of Challenger / RecursiveChallenger', len(prims), 10)
    for f in sorted(prims, key=lambda f: f.qual):
        bad = _partial_in(f.body)
        for x in walk(f.body):
            if x.get('k') == 'For':
                bad += ob.is_partial_iter(x['it'])
        ck.ob('R04.6', 'primitive:%s' % f.qual, not bad, 'absorbs every element it is given' if not bad else
              'TRUNCATED ABSORPTION: %s uses %s: part of what callers hand to the transcript is not absorbed' % (f.qual, ','.join(sorted(set(bad)))), '%s:%d' % (f.file, f.line))
    for f in sorted(encs, key=lambda f: f.qual):
        bad = _partial_in(f.body, only_root='self') if f.body is not None else []
        ck.ob('R04.6', 'encoder:%s' % f.qual, not bad, 'encodes the whole digest' if not bad else
              'LOSSY ENCODER: %s uses %s: part of the digest is dropped before absorption, so two different commitments produce the same challenges' % (f.qual, ','.join(bad)), '%s:%d' % (f.file, f.line))

    # the transcript encoding of the FRI reduction strategy: every parameter of every variant reaches the output as itself
    AGG = {'sum', 'product', 'fold', 'max', 'min', 'count', 'last', 'first', 'len', 'reduce', 'any', 'all', 'is_empty', 'is_some', 'is_none'}
    sz = [f for f in F.find('FriReductionStrategy::serialize', crate='plonky2') if f.body is not None]
    if not sz:
        ck.ob('R04.6', 'encoder:FriReductionStrategy::serialize', False, 'ANCHOR-MISSING FriReductionStrategy::serialize')
    else:
        agg = sorted({x['n'] for f_ in sz for x in walk(f_.body) if x.get('k') == 'MCall' and x.get('n') in AGG})
        ck.ob('R04.6', 'encoder:FriReductionStrategy::serialize', not agg, 'every parameter is encoded element by element' if not agg else
              'LOSSY ENCODER: FriReductionStrategy::serialize condenses a parameter with %s(): different reduction schedules get the same transcript encoding (STARK transcripts absorb the strategy only through this encoding)' % ', '.join(agg),
              '%s:%d' % (sz[0].file, sz[0].line))

    # the sponge permutations behind the challengers read their whole state (R13.8 of C13: a permutation that hashes only the rate part
    # forgets everything absorbed before the last block)
    ck.rule('R04.7', 'the permutation behind every challenger reads its whole state, rate and capacity (R13.8 of C13)')
    from . import c13, report
    c13.run(F, report.FilterProxy(ck, {'R13.8': 'R04.7'}), 'quick')


def _all_lets_env(E, fn):
    from . import poly
    env = {}
    for s_ in walk(fn.body):
        if s_.get('k') == 'Let' and 'i' in s_ and s_['p'].get('k') == 'Bind' and s_['p']['id'] not in env:
            try:
                env[s_['p']['id']] = E.ev(fn, s_['i'], env, 3)
            except poly.Unknown as ex:
                env[s_['p']['id']] = ex
    return env


def squeeze_counts(F, ck, proto, x, y, a, b, skipped):
    """aligned plural squeezes draw the same NUMBER of challenges on both sides (count expressions normalised to polynomials over
    type-qualified fields; a pair is compared only when both counts can be normalised)"""
    from . import poly
    E = poly.Ev(F)
    skipA = {id(t) for w, t in skipped if w == 'A'}
    skipB = {id(t) for w, t in skipped if w == 'B'}
    ia = [t for t in a if id(t) not in skipA]
    ib = [t for t in b if id(t) not in skipB]
    envs = {}
    n = 0
    for ta, tb in zip(ia, ib):
        if ta.kind != 'sq' or ta.method not in ('get_n_challenges', 'get_n_extension_challenges') or tb.method != ta.method:
            continue
        ps = []
        for t in (ta, tb):
            args = t.ev.node.get('a', [])
            if not args:
                ps.append(None)
                continue
            fn = t.fn
            if fn.d not in envs:
                envs[fn.d] = _all_lets_env(E, fn)
            try:
                ps.append(E.ev(fn, args[-1], envs[fn.d], 3))
            except poly.Unknown:
                ps.append(None)
        if ps[0] is None or ps[1] is None:
            continue
        n += 1
        ok = ps[0] == ps[1]
        ck.ob('R04.3', 'count:%s:%s~%s:%s:%d' % (proto, x, y, ta.fn.name, n), ok, 'both sides draw %s challenges' % poly.show(ps[0]) if ok else
              'CHALLENGE COUNT MISMATCH: %s draws %s challenges with %s at %s but its counterpart %s draws %s at %s: the two transcripts diverge from here on' %
              (ta.fn.qual, poly.show(ps[0]), ta.method, ta.loc, tb.fn.qual, poly.show(ps[1]), tb.loc), ta.loc)
    ck.notes.setdefault('R04.3 squeeze counts compared', {})['%s:%s~%s' % (proto, x, y)] = n


# which Option parameter may switch each reviewed padding step on (keyed by the event signature)
PADDING_CONDITION = {
    # the number of padded steps / coefficients is (size supplied by the caller) - (what the proof has), so the proof part that is
    # being padded may appear in the condition as well
    ('obs', 'elem', True): {'max_num_query_steps', 'commit_phase_merkle_caps'},
    ('sq', 'ext', True): {'max_num_query_steps', 'commit_phase_merkle_caps'},
    ('obs', 'ext', True): {'final_poly_coeff_len', 'final_poly'},
}


def _param_names(fn):
    from .facts import pat_binds
    return {b['n'] for p in fn.params for b in pat_binds(p)}


def _local_sources(fn, local, depth=3):
    """names of the parameters a local is computed from (through plain lets), syntactically"""
    from . import defrender
    D = defrender.Defs(fn)
    out = set()
    todo = [(local, depth)]
    pn = _param_names(fn)
    while todo:
        n, d = todo.pop()
        df = D.defs.get(n['id'])
        if not df or d <= 0:
            continue
        kind, x = df
        if kind == 'param':
            out.add(n['n'])
            continue
        node = x if isinstance(x, dict) else (x[0] if isinstance(x, tuple) else None)
        if not isinstance(node, dict):
            continue
        for y in walk(node):
            if y.get('k') == 'Local':
                if y['n'] in pn and D.defs.get(y['id'], ('', ''))[0] == 'param':
                    out.add(y['n'])
                else:
                    todo.append((y, d - 1))
    return out


def field_ops(fn, field):
    """ordered list of (method name, node) applied to self.<field> in the function body"""
    out = []
    for n in walk(fn.body):
        if n.get('k') == 'MCall':
            r = n['r']
            while r.get('k') in ('Ref', 'Un'):
                r = r['e']
            if r.get('k') == 'Field' and r['n'] == field and r['e'].get('k') == 'Local' and r['e']['n'] == 'self':
                out.append((n['n'], n))
    return out


def calls_self(fn, name):
    for n in walk(fn.body):
        if n.get('k') == 'MCall' and n['n'] == name:
            r = n['r']
            while r.get('k') in ('Ref', 'Un'):
                r = r['e']
            if r.get('k') == 'Local' and r['n'] == 'self':
                return n
    return None


def order_index(fn):
    idx = {}
    for i, n in enumerate(walk(fn.body)):
        idx[id(n)] = i
    return idx


def sponge_typestate(F, ck):
    for owner, absorb in (('Challenger', 'duplexing'), ('RecursiveChallenger', 'absorb_buffered_inputs')):
        def m(name):
            c = [f for f in F.find('%s::%s' % (owner, name), crate='plonky2') if f.file.endswith('iop/challenger.rs')]
            return c[0] if len(c) == 1 else None
        oe = m('observe_element')
        gc = m('get_challenge')
        ab = m(absorb)
        for nm, f in (('observe_element', oe), ('get_challenge', gc), (absorb, ab)):
            if f is None:
                ck.ob('R04.4', 'anchor:%s::%s' % (owner, nm), False, 'ANCHOR-MISSING: %s::%s' % (owner, nm))
        if oe is None or gc is None or ab is None:
            continue
        # observe_element: output_buffer.clear() before input_buffer.push(element)
        idx = order_index(oe)
        clears = [n for mname, n in field_ops(oe, 'output_buffer') if mname == 'clear']
        pushes = [n for mname, n in field_ops(oe, 'input_buffer') if mname == 'push']
        ok = bool(clears) and bool(pushes) and idx[id(clears[0])] < idx[id(pushes[0])]
        ck.ob('R04.4', '%s.observe_element.invalidate' % owner, ok, 'absorbing an element first invalidates buffered outputs (output_buffer.clear() before input_buffer.push)' if ok else
              '%s::observe_element no longer clears output_buffer before buffering the new input: a later squeeze can return a challenge that does not depend on this input' % owner, '%s:%d' % (oe.file, oe.line))
        fl = flow.Flow(F, oe)
        okp = any(e.kind == 'call' and e.name == 'push' and flow.has_param(e.deps(), 'element') or (e.kind == 'call' and e.name == 'push' and flow.has_param(e.deps(), 'target')) for e in fl.events)
        ck.ob('R04.4', '%s.observe_element.buffers' % owner, okp, 'the observed element is pushed to input_buffer' if okp else 'the observed element no longer reaches input_buffer', '%s:%d' % (oe.file, oe.line))
        # get_challenge: absorb pending input before popping
        fl = flow.Flow(F, gc)
        pops = [e for e in fl.events if e.kind == 'call' and e.name == 'pop']
        absorbs = [e for e in fl.events if e.kind == 'call' and e.name == absorb]
        ok = False
        why = ''
        if pops and absorbs:
            a = absorbs[0]
            cond = flow.EMPTY
            for fr in a.ctx:
                if fr[0] == 'if':
                    cond = cond | flow.flat(fr[1])
            # condition must look at input_buffer (pending input) - or the absorb is unconditional
            uncond = not any(fr[0] == 'if' for fr in a.ctx)
            ok = (uncond or flow.has_field(cond, 'input_buffer')) and fl.events.index(a) < fl.events.index(pops[0])
        ck.ob('R04.4', '%s.get_challenge.absorb_first' % owner, ok, 'pending inputs are absorbed (%s) before a challenge is popped' % absorb if ok else
              '%s::get_challenge can pop a buffered output while inputs are still pending (no %s guarded by the input_buffer state before pop)' % (owner, absorb), '%s:%d' % (gc.file, gc.line))
        # absorb: state overwritten from input_buffer, permuted, output_buffer refilled from squeeze
        fl = flow.Flow(F, ab)
        names = [e.name for e in fl.events if e.kind == 'call']
        uses_in = any(e.kind == 'call' and e.name in ('set_from_iter', 'set_from_slice', 'set_elt', 'permute_swapped', 'permute') and flow.has_field(e.deps(), 'input_buffer') for e in fl.events) \
            or any(e.kind in ('assign', 'let') and flow.has_field(flow.flat(e.val), 'input_buffer') for e in fl.events)
        perm = any(n in ('permute', 'permute_swapped') or 'permute' in (n or '') for n in names)
        refill = any(e.kind == 'call' and e.name in ('extend_from_slice', 'extend', 'push') and flow.has_field(e.recv, 'output_buffer') for e in fl.events) \
            or any(e.kind == 'assign' and flow.has_field(flow.flat(e.val), 'sponge_state') for e in fl.events)
        ck.ob('R04.4', '%s.%s.duplex' % (owner, absorb), uses_in and perm and refill,
              'absorb step: inputs overwrite the state, the permutation is applied, outputs are refilled' if (uses_in and perm and refill) else
              '%s::%s lost part of the duplex step (inputs into state: %s, permutation: %s, output refill: %s)' % (owner, absorb, uses_in, perm, refill), '%s:%d' % (ab.file, ab.line))


def invalidate_with_push(F, ck, rule):
    """wherever a challenger method buffers inputs, the buffered OUTPUTS are invalidated per buffered input: `output_buffer.clear()`
    sits in the same loop nest as `input_buffer.push(..)`.  A clear hoisted out of the loop also fires for an empty slice, so
    observe_elements(&[]) would change the next challenge - chunking would matter."""
    n = 0
    for fn in sorted(F.fns.values(), key=lambda f: f.qual):
        if fn.crate != 'plonky2' or not fn.file.endswith('iop/challenger.rs') or fn.body is None or fn.owner not in ('Challenger', 'RecursiveChallenger'):
            continue
        clears = [x for m, x in field_ops(fn, 'output_buffer') if m == 'clear']
        pushes = [x for m, x in field_ops(fn, 'input_buffer') if m in ('push', 'extend', 'extend_from_slice')]
        if not clears or not pushes:
            continue
        par = {}
        for x in walk(fn.body):
            for c in kids(x):
                par[id(c)] = x

        def loops(x):
            out = []
            while id(x) in par:
                x = par[id(x)]
                if x.get('k') in ('For', 'While', 'Loop', 'Closure'):
                    out.append(id(x))
            return out
        n += 1
        lp = loops(pushes[0])
        ok = any(loops(c) == lp for c in clears)
        ck.ob(rule, 'invalidate-per-input:%s' % fn.qual, ok, 'outputs are invalidated exactly where an input is buffered' if ok else
              '%s clears output_buffer outside the loop in which it buffers inputs: absorbing an EMPTY slice now discards valid buffered outputs, so the same elements absorbed in a different chunking give different challenges' % fn.qual,
              '%s:%d' % (fn.file, fn.line))
    ck.floor(rule, 'challenger methods that buffer inputs and invalidate outputs', n, 2)


def layering(F, ck):
    n = 0
    for fn in F.fns.values():
        if fn.crate not in ('plonky2', 'starky') or fn.file.endswith('iop/challenger.rs'):
            continue
        for x in walk(fn.body):
            if x.get('k') == 'Field' and x['n'] in ('sponge_state', 'input_buffer', 'output_buffer'):
                bt = fn.ty(x['e']) or ''
                if 'Challenger<' in bt:
                    n += 1
                    ok = fn.name == 'fri_proof_of_work'
                    ck.ob('R04.5', 'sponge-access:%s:%s' % (fn.qual, x['n']), ok,
                          'reviewed: grinding search copies the sponge state to try witnesses, then performs the ordinary observe_element(pow_witness); get_challenge() and asserts the result' if ok else
                          '%s reads or writes the challenger\'s %s directly: transcript state may change outside the observe/get discipline' % (fn.qual, x['n']), x.get('s'))
    ck.floor('R04.5', 'direct sponge accesses outside the challenger (the grinding shortcut)', n, 2)
    # the grinding shortcut must be followed by the ordinary absorption + squeeze + check
    pw = F.one('fri::prover::fri_proof_of_work', crate='plonky2')
    if pw is not None:
        fl = flow.Flow(F, pw)
        obs = any(e.kind == 'call' and e.name == 'observe_element' and flow.has_call(e.deps(), 'find_any') or (e.kind == 'call' and e.name == 'observe_element') for e in fl.events)
        sq = any(e.kind == 'call' and e.name == 'get_challenge' for e in fl.events)
        chk = any(e.kind in ('assert', 'guard') and flow.has_call(e.val, 'get_challenge') for e in fl.events)
        ck.ob('R04.5', 'grinding.recheck', obs and sq and chk, 'the found witness is absorbed by the real challenger, the response is squeezed and checked' if (obs and sq and chk) else
              'fri_proof_of_work no longer re-derives and checks the PoW response through the real challenger', '%s:%d' % (pw.file, pw.line))
