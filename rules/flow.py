"""A2 - dependence evaluator over the typed HIR tree.

Abstract value = set of source atoms (over-approximate data dependence):
  p:<root>.<f1>.<f2>   access path rooted at a parameter (or `self`)
  F:<Adt>.<field>      a read of that field on a value of that ADT (type-resolved)
  c:<Owner::name>      result of that call
  d:<Owner::NAME>      a const / static / fn item
  n:<int>              integer literal (only when lits=True)
Light structure is kept for tuples (T) and struct literals (S) so that zips, enumerate and
field-wise construction stay positional.

The evaluator records *events* (calls, guards, `?`-propagations, asserts, struct literals,
assignments, returns) together with the control context (enclosing loops / conditions) and the
inlining stack.  Rules query the events; direction of approximation: may-depend.
"""
from .facts import kids, walk, callee, callee_decl, parse_path, qual, ty_adt, macro_of, in_macro, pat_binds

EMPTY = frozenset()


class T(tuple):
    """positional tuple value"""
    __slots__ = ()


class S(dict):
    """struct literal value: field -> value"""
    __slots__ = ()

    def __hash__(self):
        return id(self)


class C(tuple):
    """container whose elements have the (structured) value self[0]"""
    __slots__ = ()


def flat(v):
    if isinstance(v, frozenset):
        return v
    if isinstance(v, C):
        return flat(v[0])
    if isinstance(v, T):
        r = EMPTY
        for x in v:
            r = r | flat(x)
        return r
    if isinstance(v, S):
        r = EMPTY
        for x in v.values():
            r = r | flat(x)
        return r
    if v is None:
        return EMPTY
    return frozenset(v)


def join(a, b):
    if a is None:
        return b
    if b is None:
        return a
    if isinstance(a, T) and isinstance(b, T) and len(a) == len(b):
        return T(join(x, y) for x, y in zip(a, b))
    if isinstance(a, S) and isinstance(b, S) and set(a) == set(b):
        return S((k, join(a[k], b[k])) for k in a)
    if isinstance(a, C) and isinstance(b, C):
        return C((join(a[0], b[0]),))
    return flat(a) | flat(b)


def project(v, field, adt=None, maxdepth=8):
    fa = frozenset(['F:%s.%s' % (adt, field)]) if adt else EMPTY
    if isinstance(v, S):
        if field in v:
            return join_keep(v[field], fa)
        return flat(v) | fa
    if isinstance(v, T):
        if field.isdigit() and int(field) < len(v):
            return v[int(field)]
        v = flat(v)
    if isinstance(v, C):
        v = flat(v)
    out = set(fa)
    for a in v:
        if a.startswith('p:'):
            if a.count('.') < maxdepth:
                out.add(a + '.' + field)
            else:
                out.add(a)
        else:
            out.add(a)
    return frozenset(out)


def elem(v, maxn=4):
    """value of an element of a collection / iterator value: access paths get a [] marker"""
    if isinstance(v, C):
        return v[0] if v[0] is not None else EMPTY
    if isinstance(v, T):
        return T(elem(x, maxn) for x in v)
    if isinstance(v, S):
        v = flat(v)
    if v is None:
        return EMPTY
    out = set()
    for a in v:
        if a.startswith('p:') and a.count('[]') < maxn:
            out.add(a + '[]')
        else:
            out.add(a)
    return frozenset(out)


LEN_METHODS = {'len', 'is_some', 'is_none', 'is_empty', 'height'}
ELEM_METHODS = {'next', 'first', 'last', 'get', 'get_mut', 'pop', 'nth', 'peek', 'first_mut', 'last_mut', 'get_unchecked'}


def join_keep(v, extra):
    """add atoms to a value, keeping structure"""
    if not extra:
        return v
    if isinstance(v, T):
        return T(join_keep(x, extra) for x in v)
    if isinstance(v, S):
        return S((k, join_keep(x, extra)) for k, x in v.items())
    if isinstance(v, C):
        return C((join_keep(v[0], extra),))
    return v | extra


# builder-like sinks: data flows through targets, not through the builder value itself
OPAQUE = {'CircuitBuilder', 'TimingTree'}

PASS_THROUGH = {'iter', 'iter_mut', 'into_iter', 'copied', 'cloned', 'rev', 'by_ref', 'peekable', 'as_ref', 'as_mut',
                'clone', 'to_vec', 'as_slice', 'borrow', 'borrow_mut', 'deref', 'to_owned', 'skip', 'take', 'step_by',
                'par_iter', 'par_iter_mut', 'into_par_iter', 'unwrap', 'expect', 'collect', 'collect_vec', 'chain'}
ZIPS = {'zip', 'zip_eq'}


class Event:
    __slots__ = ('kind', 'node', 'callee', 'decl', 'recv', 'args', 'val', 'ctx', 'stack', 'fn', 'tried', 'extra', 'pins', 'eq_pins', 'cmps')

    def __init__(self, kind, node, fn, ctx, stack, callee=None, decl=None, recv=None, args=None, val=None, tried=False, extra=None):
        self.kind = kind
        self.node = node
        self.fn = fn
        self.ctx = ctx
        self.stack = stack
        self.callee = callee
        self.decl = decl
        self.recv = recv
        self.args = args or []
        self.val = val
        self.tried = tried
        self.extra = extra
        self.pins = EMPTY
        self.eq_pins = EMPTY
        self.cmps = []

    @property
    def q(self):
        return qual(self.callee) if self.callee else None

    @property
    def name(self):
        return parse_path(self.callee)[1] if self.callee else None

    def deps(self):
        """everything flowing into this event"""
        r = flat(self.val) if self.val is not None else EMPTY
        if self.recv is not None:
            r = r | flat(self.recv)
        for a in self.args:
            r = r | flat(a)
        return r

    def ctx_deps(self):
        r = EMPTY
        for fr in self.ctx:
            r = r | flat(fr[1])
        return r

    def in_loop(self):
        return any(fr[0] == 'loop' for fr in self.ctx)

    def loc(self):
        return self.node.get('s', '?') if isinstance(self.node, dict) else '?'

    def __repr__(self):
        return 'Ev(%s %s @%s)' % (self.kind, self.q or '', self.loc())


def is_err_ctor(n):
    """Call to Err(..) / anyhow bail machinery"""
    if n.get('k') == 'Call':
        c = callee(n)
        if c and (c.endswith('::Err') or c == 'Err'):
            return True
    return False


def diverges_with_err(n):
    """Does this branch contain (not inside a nested closure) `return Err(..)`?"""
    for x in walk_noclosure(n):
        if x.get('k') == 'Ret' and 'e' in x:
            e = x['e']
            if is_err_ctor(e):
                return True
            # return Err(..).into() / from_residual
            for y in walk_noclosure(e):
                if is_err_ctor(y):
                    return True
    return False


def skips_rest(ifnode):
    """an If / let-else / match statement one of whose branches leaves the enclosing block early without reporting an error"""
    k0 = ifnode.get('k')
    if k0 == 'If':
        branches = (ifnode.get('th'), ifnode.get('el'))
    elif k0 == 'Let':
        branches = (ifnode.get('els'),)
        init = ifnode.get('i')
        if isinstance(init, dict) and init.get('k') in ('If', 'Match') and skips_rest(init):
            return True
    elif k0 == 'Match':
        branches = tuple(a['b'] for a in ifnode['arms'])
        if len(branches) < 2:
            return False
    else:
        return False
    for br in branches:
        if br is None:
            continue
        stack = [br]
        while stack:
            x = stack.pop()
            k = x.get('k')
            if k in ('Closure', 'For', 'While', 'Loop'):
                continue
            if k in ('Continue', 'Break'):
                return True
            if k == 'Ret':
                e = x.get('e')
                if e is None or not any(is_err_ctor(y) for y in walk_noclosure(e)):
                    return True
                continue
            stack.extend(kids(x))
    return False


def tail_is_err(n):
    """block / expression whose value is directly an Err(..) constructor call"""
    while isinstance(n, dict) and n.get('k') == 'Block':
        if 'e' not in n:
            return False
        n = n['e']
    return isinstance(n, dict) and is_err_ctor(n)


def panics(n):
    for x in walk_noclosure(n):
        if x.get('k') == 'Call':
            c = callee(x) or ''
            if 'panicking::' in c or c.endswith('::panic_fmt') or c.endswith('begin_panic') or 'assert_failed' in c or c.endswith('::unreachable_display') or 'panic_display' in c or 'panic_explicit' in c:
                return True
    return False


def walk_noclosure(n):
    stack = [n]
    while stack:
        x = stack.pop()
        yield x
        if x.get('k') == 'Closure':
            continue
        stack.extend(reversed(list(kids(x))))


class Flow:
    def __init__(self, facts, fn, inline=None, depth=3, lits=False, self_val=None, param_vals=None, track_idx=False, tagger=None, opaque=(), idx_value=True):
        self.F = facts
        self.root = fn
        self.inline = inline
        self.maxdepth = depth
        self.lits = lits
        self.events = []
        self.track_idx = track_idx
        self.alias = {}
        self.idx_value = idx_value   # False: an index does not contribute to the value of v[i] (pure value flow)
        self.tagger = tagger
        self.opaque = set(OPAQUE) | set(opaque)
        self._active = []
        self._conds = {}
        self.ret = self.run_fn(fn, param_vals, (), ())

    # ------------------------------------------------------------------ driver
    def run_fn(self, fn, param_vals, ctx, stack):
        env = {}
        clos = {}
        frame = _Frame(fn, env, clos)
        for i, p in enumerate(fn.params):
            if param_vals is not None and i < len(param_vals) and param_vals[i] is not None:
                v = param_vals[i]
            else:
                names = [b['n'] for b in pat_binds(p)]
                nm = names[0] if len(names) == 1 else 'arg%d' % i
                v = frozenset(['p:' + nm])
            self.bind(frame, p, v)
        frame.rets = []
        tail = self.ev(frame, fn.body, ctx, stack)
        r = tail
        for x in frame.rets:
            r = join(r, x)
        if r is None:
            r = EMPTY
        self.events.append(Event('ret', fn.body, fn, ctx, stack, val=r))
        return r

    # ------------------------------------------------------------------ length provenance
    def quiet(self, fr, n, ctx, stack):
        saved = self.events
        self.events = []
        try:
            return self.ev(fr, n, ctx, stack)
        finally:
            self.events = saved

    def len_paths(self, fr, n, ctx, stack, strict=False, want_eq=False, pol=1, cmps=None):
        """access paths whose len()/is_some()/is_none()/height() occurs in this expression (directly, or through a
        local bound to such an expression).  strict: only through arithmetic / casts / refs.
        want_eq: return (all, eq) where eq = those the condition PINS: operands of an `==` that must hold (or of a `!=`
        that must not hold), or presence tests, and not inside a disjunction that another disjunct can satisfy.
        pol: +1 when the expression must be true for execution to continue, -1 when it must be false."""
        out = set()
        eqs = set()
        todo = [(n, False, pol, False)]
        while todo:
            x, ueq, pl, weak = todo.pop()
            if not isinstance(x, dict):
                continue
            k = x.get('k')
            if k == 'MCall' and x.get('n') in LEN_METHODS:
                rv = self.quiet(fr, x['r'], ctx, stack)
                presence = x.get('n') in ('is_some', 'is_none', 'is_empty')
                for a in flat(rv):
                    if a.startswith('p:'):
                        out.add(a)
                        if (ueq or presence) and not weak:
                            eqs.add(a)
                continue
            if k == 'Local':
                lp = fr.lens.get(x['id'], EMPTY)
                out |= lp
                if ueq and not weak:
                    eqs |= lp
                continue
            if strict and k not in ('Bin', 'Un', 'Cast', 'Ref', 'Block', 'Lit', 'Tup'):
                continue
            if k == 'Closure':
                todo.append((x['b'], ueq, pl, weak))
                continue
            if k == 'Un' and x.get('op') == 'Not':
                todo.append((x['e'], ueq, -pl, weak))
                continue
            if k == 'Call' and x['f'].get('k') == 'Def' and x['f'].get('d', '').endswith('__private::not') and len(x['a']) == 1:
                todo.append((x['a'][0], ueq, -pl, weak))   # anyhow's ensure!: `if not(cond) { return Err }`
                continue
            if k == 'Bin':
                op = x.get('op')
                w = weak
                if op == 'Eq':
                    c = pl > 0
                elif op == 'Ne':
                    c = pl < 0
                elif op in ('Lt', 'Le', 'Gt', 'Ge'):
                    c = False
                if cmps is not None and op in ('Lt', 'Le', 'Gt', 'Ge', 'Eq', 'Ne'):
                    # the relation that must hold for execution to continue, with the length paths of each side
                    rel = op if pl > 0 else {'Lt': 'Ge', 'Le': 'Gt', 'Gt': 'Le', 'Ge': 'Lt', 'Eq': 'Ne', 'Ne': 'Eq'}[op]
                    cmps.append((rel, self.len_paths(fr, x['l'], ctx, stack), self.len_paths(fr, x['r'], ctx, stack), weak, x['l'], x['r'], fr.fn))
                elif op in ('And', 'Or'):
                    c = ueq
                    # `a || b` that must hold (or `a && b` that must fail) is satisfied by either side alone
                    if (op == 'Or') == (pl > 0):
                        w = True
                else:
                    c = ueq
                todo.append((x['l'], c, pl, w))
                todo.append((x['r'], c, pl, w))
                continue
            for c in kids(x):
                todo.append((c, ueq, pl, weak))
        if want_eq:
            return frozenset(out), frozenset(eqs)
        return frozenset(out)

    # ------------------------------------------------------------------ patterns
    def bind(self, fr, p, v, weak=False):
        k = p.get('k')
        if k == 'Bind':
            pid = p['id']
            if p.get('t') is not None and ty_adt(fr.fn.types[p['t']]) in self.opaque:
                fr.opq.add(pid)
                fr.env[pid] = EMPTY
                return
            if weak and pid in fr.env:
                fr.env[pid] = join(fr.env[pid], v)
            else:
                fr.env[pid] = v
            if 'sub' in p:
                self.bind(fr, p['sub'], v, weak)
        elif k == 'PStruct':
            adt = parse_path(p['d'])[1] if p.get('d') else None
            # variant paths: use last segment; for struct patterns `d` is the struct
            for name, q in p['f']:
                self.bind(fr, q, project(v, name, adt), weak)
        elif k == 'PTuple':
            if isinstance(v, T) and len(v) == len(p['a']) and p.get('dd', -1) < 0:
                for q, x in zip(p['a'], v):
                    self.bind(fr, q, x, weak)
            else:
                fv = flat(v)
                if p.get('dd', -1) < 0:
                    for i, q in enumerate(p['a']):
                        self.bind(fr, q, project(fv, str(i)) | frozenset(['t:%d' % i]), weak)
                else:
                    for q in p['a']:
                        self.bind(fr, q, fv, weak)
        elif k == 'PTupleStruct':
            # Some(x) / Ok(x) / Variant(a, b)
            if len(p['a']) == 1:
                self.bind(fr, p['a'][0], v, weak)
            else:
                if isinstance(v, T) and len(v) == len(p['a']):
                    for q, x in zip(p['a'], v):
                        self.bind(fr, q, x, weak)
                else:
                    fv = flat(v)
                    for q in p['a']:
                        self.bind(fr, q, fv, weak)
        elif k == 'PRef':
            self.bind(fr, p['p'], v, weak)
        elif k == 'POr':
            for q in p['a']:
                self.bind(fr, q, v, True)
        elif k == 'PSlice':
            fv = flat(v)
            for q in p['b'] + p['a']:
                self.bind(fr, q, fv, weak)
            if 'm' in p:
                self.bind(fr, p['m'], fv, weak)

    # ------------------------------------------------------------------ lvalues
    def root_local(self, n):
        while isinstance(n, dict):
            k = n.get('k')
            if k == 'Local':
                return n['id']
            if k in ('Field', 'Index', 'Un', 'Ref', 'Cast'):
                n = n['e']
            elif k == 'MCall':
                n = n['r']
            else:
                return None
        return None

    def weak_update(self, fr, n, v):
        rid = self.root_local(n)
        if rid is not None and rid not in fr.opq:
            fr.env[rid] = join(fr.env.get(rid, EMPTY), flat(v))

    # ------------------------------------------------------------------ expressions
    def ev_list(self, fr, ns, ctx, stack):
        return [self.ev(fr, n, ctx, stack) for n in ns]

    def ev(self, fr, n, ctx, stack):
        k = n.get('k')
        m = getattr(self, 'ev_' + k, None)
        if m is None:
            r = EMPTY
            for c in kids(n):
                r = r | flat(self.ev(fr, c, ctx, stack))
            return r
        return m(fr, n, ctx, stack)

    def ev_Local(self, fr, n, ctx, stack):
        return fr.env.get(n['id'], EMPTY)

    def ev_Def(self, fr, n, ctx, stack):
        dk = n.get('dk', '')
        if dk in ('Fn', 'AssocFn'):
            # a function item used as a value (e.g. `.flat_map(Gate::wires_coeff)`): its result will flow
            return frozenset(['c:' + qual(n.get('rd') or n.get('d'))])
        if dk.startswith('Ctor') or dk == 'SelfCtor':
            return EMPTY
        d = n.get('rd') or n.get('d')
        return frozenset(['d:' + qual(d)])

    def ev_Lit(self, fr, n, ctx, stack):
        if self.lits and n.get('lk') == 'int':
            return frozenset(['n:%s' % n['v']])
        return EMPTY

    def ev_Block(self, fr, n, ctx, stack):
        for s in n['st']:
            self.ev(fr, s, ctx, stack)
            # `if c { continue / break / return <non-Err> }`: the rest of the block runs only when !c
            if s.get('k') in ('If', 'Let', 'Match') and skips_rest(s):
                cf = self._conds.get(id(s), EMPTY)
                if not cf and s.get('k') == 'Let' and isinstance(s.get('i'), dict):
                    cf = self._conds.get(id(s['i']), EMPTY) or flat(self.quiet(fr, s['i'], ctx, stack))
                if cf:
                    ctx = ctx + (('if', cf, s, 'skip'),)
        if 'e' in n:
            return self.ev(fr, n['e'], ctx, stack)
        return EMPTY

    def ev_Let(self, fr, n, ctx, stack):
        v = EMPTY
        if 'i' in n:
            init = n['i']
            if init.get('k') == 'Closure':
                for b in pat_binds(n['p']):
                    fr.clos[b['id']] = init
            v = self.ev(fr, init, ctx, stack)
        if 'els' in n:
            # let-else: a guard when else diverges with Err
            if diverges_with_err(n['els']):
                self.events.append(Event('guard', n, fr.fn, ctx, stack, val=v))
            self.ev(fr, n['els'], ctx, stack)
        self.bind(fr, n['p'], v)
        if 'i' in n and n['p'].get('k') == 'Bind':
            lp = self.len_paths(fr, n['i'], ctx, stack, strict=True)
            if lp:
                fr.lens[n['p']['id']] = lp
        names = [b['n'] for b in pat_binds(n['p'])]
        self.events.append(Event('let', n, fr.fn, ctx, stack, val=v, extra=names))
        return EMPTY

    def ev_LetE(self, fr, n, ctx, stack):
        v = self.ev(fr, n['i'], ctx, stack)
        self.bind(fr, n['p'], v)
        return flat(v)

    def ev_Tup(self, fr, n, ctx, stack):
        return T(self.ev_list(fr, n['a'], ctx, stack))

    def ev_Array(self, fr, n, ctx, stack):
        r = EMPTY
        for v in self.ev_list(fr, n['a'], ctx, stack):
            r = r | flat(v)
        return r

    def ev_Repeat(self, fr, n, ctx, stack):
        return flat(self.ev(fr, n['e'], ctx, stack))

    def ev_Field(self, fr, n, ctx, stack):
        b = self.ev(fr, n['e'], ctx, stack)
        adt = ty_adt(fr.fn.ty(n['e'], adjusted=False))
        return project(b, n['n'], adt)

    def ev_Index(self, fr, n, ctx, stack):
        b = self.ev(fr, n['e'], ctx, stack)
        i = self.ev(fr, n['i'], ctx, stack)
        if self.track_idx:
            self.events.append(Event('index', n, fr.fn, ctx, stack, recv=b, args=[i]))
        ri = n['i']
        if ri.get('k') == 'Struct' and 'Range' in ri.get('d', ''):
            return flat(b) | flat(i)   # sub-slice keeps the collection path
        return join_keep(elem(b), flat(i)) if self.idx_value else elem(b)

    def ev_Ref(self, fr, n, ctx, stack):
        return self.ev(fr, n['e'], ctx, stack)

    def ev_Cast(self, fr, n, ctx, stack):
        return self.ev(fr, n['e'], ctx, stack)

    def ev_Un(self, fr, n, ctx, stack):
        v = self.ev(fr, n['e'], ctx, stack)
        return v if n.get('op') == 'Deref' else flat(v)

    def ev_Bin(self, fr, n, ctx, stack):
        return flat(self.ev(fr, n['l'], ctx, stack)) | flat(self.ev(fr, n['r'], ctx, stack))

    def ev_Assign(self, fr, n, ctx, stack):
        v = self.ev(fr, n['r'], ctx, stack)
        l = n['l']
        if l.get('k') == 'Local' and l['id'] in fr.opq:
            pass
        elif l.get('k') == 'Local':
            # strong update only outside loops/branches is unsafe to judge; use weak join (may-depend)
            fr.env[l['id']] = join(fr.env.get(l['id'], EMPTY), v)
        else:
            self.ev(fr, l, ctx, stack)
            self.weak_update(fr, l, v)
            if l.get('k') == 'Index':
                self.weak_update(fr, l, self.ev(fr, l['i'], ctx, stack))
        self.events.append(Event('assign', n, fr.fn, ctx, stack, val=v, extra=l))
        return EMPTY

    def ev_AssignOp(self, fr, n, ctx, stack):
        v = self.ev(fr, n['r'], ctx, stack)
        l = n['l']
        self.ev(fr, l, ctx, stack)
        self.weak_update(fr, l, v)
        self.events.append(Event('assign', n, fr.fn, ctx, stack, val=v, extra=l))
        return EMPTY

    def ev_If(self, fr, n, ctx, stack):
        c = self.ev(fr, n['c'], ctx, stack)
        cf = flat(c)
        self._conds[id(n)] = cf
        th, el = n['th'], n.get('el')
        g_th = diverges_with_err(th) or tail_is_err(th)
        g_el = el is not None and (diverges_with_err(el) or tail_is_err(el))
        if g_th or g_el:
            ge = Event('guard', n, fr.fn, ctx, stack, val=cf, extra='ensure' if in_macro(n, 'ensure') else 'if')
            ge.cmps = []
            ge.pins, ge.eq_pins = self.len_paths(fr, n['c'], ctx, stack, want_eq=True, pol=(-1 if g_th and not g_el else 1), cmps=ge.cmps)
            self.events.append(ge)
        elif panics(th) or (el is not None and panics(el)):
            mac = macro_of(n) or 'panic'
            ae = Event('assert', n, fr.fn, ctx, stack, val=cf, extra=mac)
            ae.pins = self.len_paths(fr, n['c'], ctx, stack)      # lengths / presences the assertion looks at
            self.events.append(ae)
        c1 = ctx + (('if', cf, n, True),)
        r = self.ev(fr, th, c1, stack)
        if el is not None:
            c2 = ctx + (('if', cf, n, False),)
            r = join(r, self.ev(fr, el, c2, stack))
        return r

    def ev_Match(self, fr, n, ctx, stack):
        s = self.ev(fr, n['e'], ctx, stack)
        sf = flat(s)
        self._conds[id(n)] = sf
        r = None
        # a match with one irrefutable arm is just a binding form (used by ensure!/assert_eq! expansions)
        single = len(n['arms']) == 1
        for a in n['arms']:
            self.bind(fr, a['p'], s)
            if single and n['e'].get('k') == 'Tup' and a['p'].get('k') == 'PTuple' and len(n['e']['a']) == len(a['p']['a']):
                for sub, pe in zip(a['p']['a'], n['e']['a']):
                    for b in pat_binds(sub):
                        self.alias[b['id']] = pe     # `match (&a, &b) { (lhs, rhs) => .. }` of assert_eq!/ensure!
                    lp = self.len_paths(fr, pe, ctx, stack)
                    if lp:
                        for b in pat_binds(sub):
                            fr.lens[b['id']] = lp
            c1 = ctx if single else ctx + (('if', sf, n, a),)
            if 'g' in a:
                g = flat(self.ev(fr, a['g'], c1, stack))
                c1 = c1 + (('if', g, n, a),)
            if not single and diverges_with_err(a['b']) and not any(diverges_with_err(b['b']) for b in n['arms'] if b is not a):
                ge = Event('guard', n, fr.fn, ctx, stack, val=sf, extra='match')
                ge.pins, ge.eq_pins = self.len_paths(fr, n['e'], ctx, stack, want_eq=True)
                self.events.append(ge)
            r = join(r, self.ev(fr, a['b'], c1, stack))
        return r if r is not None else EMPTY

    def ev_For(self, fr, n, ctx, stack):
        it = self.ev(fr, n['it'], ctx, stack)
        c1 = ctx + (('loop', flat(it), n, n['it']),)
        it = elem(it)
        self.bind(fr, n['p'], it)
        self.ev(fr, n['b'], c1, stack)
        k = len(self.events)
        self.bind(fr, n['p'], it)
        self.ev(fr, n['b'], c1, stack)
        self._dedupe_from(k)
        return EMPTY

    def ev_While(self, fr, n, ctx, stack):
        c = flat(self.ev(fr, n['c'], ctx, stack))
        c1 = ctx + (('loop', c, n, n['c']),)
        self.ev(fr, n['b'], c1, stack)
        k = len(self.events)
        self.ev(fr, n['c'], ctx, stack)
        self.ev(fr, n['b'], c1, stack)
        self._dedupe_from(k)
        return EMPTY

    def ev_Loop(self, fr, n, ctx, stack):
        c1 = ctx + (('loop', EMPTY, n, None),)
        self.ev(fr, n['b'], c1, stack)
        k = len(self.events)
        self.ev(fr, n['b'], c1, stack)
        self._dedupe_from(k)
        return EMPTY

    def _dedupe_from(self, k):
        """second loop pass: keep only the richer copy of each event (same node & stack)."""
        first = {}
        for i, e in enumerate(self.events[:k]):
            first[(id(e.node), e.stack, e.kind)] = i
        keep = self.events[:k]
        for e in self.events[k:]:
            key = (id(e.node), e.stack, e.kind)
            if key in first:
                keep[first[key]] = e  # second pass sees loop-carried flows
            else:
                keep.append(e)
        self.events = keep

    def ev_Ret(self, fr, n, ctx, stack):
        if 'e' in n:
            v = self.ev(fr, n['e'], ctx, stack)
            fr.rets.append(v)
            self.events.append(Event('return', n, fr.fn, ctx, stack, val=v))
        return EMPTY

    def ev_Break(self, fr, n, ctx, stack):
        if 'e' in n:
            return self.ev(fr, n['e'], ctx, stack)
        return EMPTY

    def ev_Try(self, fr, n, ctx, stack):
        inner = n['e']
        before = len(self.events)
        v = self.ev(fr, inner, ctx, stack)
        # mark the call event of the inner expression as propagated
        for e in self.events[before:]:
            if e.node is inner and e.kind == 'call':
                e.tried = True
            elif e.kind == 'call' and len(e.stack) == len(stack) + 1 and e.fn.body is not None:
                # the inner call was inlined: a call that IS the value returned by that helper propagates through this `?` too
                t = e.fn.body
                while isinstance(t, dict) and t.get('k') == 'Block':
                    t = t.get('e')
                if t is e.node:
                    e.tried = True
        self.events.append(Event('try', n, fr.fn, ctx, stack, val=v, callee=callee(inner) if inner.get('k') in ('Call', 'MCall') else None))
        return v

    def ev_Struct(self, fr, n, ctx, stack):
        fields = S()
        for name, e in n['f']:
            fields[name] = self.ev(fr, e, ctx, stack)
        base = None
        if isinstance(n.get('base'), dict):
            base = self.ev(fr, n['base'], ctx, stack)
        d = n['d']
        if d.startswith('Self:'):
            adt = fr.fn.owner or parse_path(d[5:])[0]
        else:
            adt = parse_path(d)[1]
        self.events.append(Event('struct', n, fr.fn, ctx, stack, val=fields, extra=(adt, base)))
        if base is not None:
            return flat(fields) | flat(base)
        return fields

    def ev_Closure(self, fr, n, ctx, stack):
        # a closure value not called here: evaluate body once with opaque params so events inside are seen
        return self.call_closure(fr, n, [], ctx + (('closure', EMPTY, n, None),), stack)

    def call_closure(self, fr, cl, argvals, ctx, stack):
        if id(cl) in self._active:
            return EMPTY
        self._active.append(id(cl))
        try:
            for i, p in enumerate(cl['p']):
                v = argvals[i] if i < len(argvals) else EMPTY
                self.bind(fr, p, v)
            saved = fr.rets
            fr.rets = []
            r = self.ev(fr, cl['b'], ctx, stack)
            for x in fr.rets:
                r = join(r, x)
            fr.rets = saved
            return r if r is not None else EMPTY
        finally:
            self._active.pop()

    def closure_of(self, fr, n):
        if n.get('k') == 'Closure':
            return n
        if n.get('k') == 'Local' and n['id'] in fr.clos:
            return fr.clos[n['id']]
        if n.get('k') == 'Ref':
            return self.closure_of(fr, n['e'])
        return None

    def ev_Call(self, fr, n, ctx, stack):
        f = n['f']
        # call of a local closure
        cl = self.closure_of(fr, f)
        if cl is not None:
            argvals = self.ev_list(fr, n['a'], ctx, stack)
            return self.call_closure(fr, cl, argvals, ctx, stack)
        c = callee(n)
        d = callee_decl(n)
        if c is None:
            r = flat(self.ev(fr, f, ctx, stack))
            for a in n['a']:
                r = r | flat(self.ev(fr, a, ctx, stack))
            return r
        dk = f.get('dk', '')
        if dk.startswith('Ctor'):
            vals = self.ev_list(fr, n['a'], ctx, stack)
            if len(vals) == 1:
                return vals[0]
            return T(vals)
        return self.do_call(fr, n, c, d, None, n['a'], ctx, stack)

    def ev_MCall(self, fr, n, ctx, stack):
        return self.do_call(fr, n, callee(n), callee_decl(n), n['r'], n['a'], ctx, stack)

    def do_call(self, fr, n, c, d, recv_node, arg_nodes, ctx, stack):
        name = parse_path(c)[1] if c else n.get('n')
        recv = self.ev(fr, recv_node, ctx, stack) if recv_node is not None else None
        # arguments: closures are applied to the receiver's elements
        argvals = []
        clos_results = EMPTY
        plain = []
        for a in arg_nodes:
            cl = self.closure_of(fr, a)
            if cl is None:
                v = self.ev(fr, a, ctx, stack)
                argvals.append(v)
                plain.append(v)
            else:
                argvals.append(None)
        src = recv if recv is not None else None
        others = EMPTY
        for v in plain:
            others = others | flat(v)
        for i, a in enumerate(arg_nodes):
            cl = self.closure_of(fr, a)
            if cl is not None:
                np_ = len(cl['p'])
                el = elem(src) if src is not None else others
                if np_ == 1:
                    cargs = [el if el is not None else EMPTY]
                elif np_ == 2 and name in ('fold', 'try_fold', 'scan'):
                    cargs = [others, el]
                elif isinstance(el, T) and len(el) == np_:
                    cargs = list(el)
                else:
                    cargs = [flat(el) | others for _ in range(np_)]
                cctx = ctx + (('loop' if recv is not None else 'closure', flat(src) if src is not None else EMPTY, a, recv_node),)
                r1 = self.call_closure(fr, cl, cargs, cctx, stack)
                if name in ('fold', 'try_fold', 'scan', 'for_each', 'map', 'flat_map', 'filter_map', 'and_then', 'map_or', 'map_or_else', 'unwrap_or_else'):
                    # loop-carried second pass for accumulators
                    if name in ('fold', 'try_fold', 'scan'):
                        r1 = join(r1, self.call_closure(fr, cl, [flat(r1) | others, el], cctx, stack))
                argvals[i] = r1
                clos_results = clos_results | flat(r1)
        ev = Event('call', n, fr.fn, ctx, stack, callee=c, decl=d, recv=recv, args=argvals)
        self.events.append(ev)
        if recv_node is None and name in ('new', 'with_capacity') and c and ('Vec' in c):
            return C((EMPTY,))   # capacity is not data
        if recv_node is not None and name == 'push' and len(plain) == 1:
            rid = self.root_local(recv_node)
            if rid is not None and recv_node.get('k') == 'Local' and isinstance(fr.env.get(rid), C):
                fr.env[rid] = C((join(fr.env[rid][0] if fr.env[rid][0] else None, plain[0]),))
                return EMPTY
        # inlining
        result = None
        if self.inline is not None and len(stack) < self.maxdepth and c is not None:
            targets = self.inline(c, d, ev)
            if targets is not None and not isinstance(targets, (list, tuple)):
                targets = [targets]
            for target in targets or []:
                if target.d not in stack and target.d != self.root.d:
                    pv = ([recv] if recv is not None else []) + argvals
                    r1 = self.run_fn(target, pv, ctx, stack + (target.d,))
                    result = r1 if result is None else join(result, r1)
        catom = frozenset(['c:' + qual(c)]) if c else EMPTY
        if self.tagger is not None:
            tg = self.tagger(ev, len(self.events) - 1)
            if tg:
                catom = catom | frozenset([tg])
        # mutation through &mut receiver / &mut args
        if recv_node is not None:
            rt = fr.fn.ty(recv_node, adjusted=True) or ''
            if rt.startswith('&mut') or (recv_node.get('k') == 'Ref' and recv_node.get('mut')):
                upd = others | clos_results
                if upd:
                    self.weak_update(fr, recv_node, upd | catom)
        allargs = (flat(recv) if recv is not None else EMPTY) | others | clos_results
        for a in arg_nodes:
            if a.get('k') == 'Ref' and a.get('mut'):
                self.weak_update(fr, a, allargs | catom)
            else:
                at = fr.fn.ty(a) or ''
                if at.startswith('&mut') and a.get('k') in ('Local', 'Field', 'Index', 'MCall'):
                    self.weak_update(fr, a, allargs | catom)
        # result value
        if result is not None:
            return join_keep(result, catom)
        if recv is not None and name in PASS_THROUGH and not clos_results:
            base = recv
            if name == 'chain' and plain:
                return flat(recv) | others | catom
            return join_keep(base, EMPTY) if not others else join_keep(base, others)
        if recv is not None and name in ELEM_METHODS and not clos_results:
            return flat(elem(recv)) | others | catom
        if recv is not None and name in ZIPS and len(plain) == 1:
            return T([recv, plain[0]])
        if recv is not None and name == 'enumerate':
            return T([EMPTY, recv])
        if name in ('map', 'filter_map', 'flat_map', 'and_then', 'map_or', 'map_or_else', 'unwrap_or_else', 'then', 'fold', 'try_fold') and clos_results:
            # result of the closure (plus the receiver's control dependence)
            for i, a in enumerate(arg_nodes):
                if self.closure_of(fr, a) is not None and isinstance(argvals[i], (T, S)) and name == 'map':
                    return C((argvals[i],))
            return allargs | catom
        return allargs | catom


class _Frame:
    __slots__ = ('fn', 'env', 'clos', 'rets', 'lens', 'opq')

    def __init__(self, fn, env, clos):
        self.fn = fn
        self.env = env
        self.clos = clos
        self.rets = []
        self.lens = {}
        self.opq = set()


# ---------------------------------------------------------------------- query helpers

def has(v, *atoms):
    v = flat(v)
    return all(any(x == a or x.startswith(a + '.') if a.startswith('p:') else x == a for x in v) for a in atoms)


def has_field(v, field):
    """any F:*.field atom or an access path ending in .field"""
    for x in flat(v):
        if x.startswith('F:') and x.endswith('.' + field):
            return True
        if x.startswith('p:') and ('.' + field) in x:
            seg = x[2:].replace('[]', '').split('.')
            if field in seg[1:]:
                return True
    return False


def has_call(v, name):
    for x in flat(v):
        if x.startswith('c:') and (x[2:] == name or x[2:].endswith('::' + name)):
            return True
    return False


def has_param(v, name):
    for x in flat(v):
        if x.startswith('p:'):
            r = x[2:].split('.')[0].replace('[]', '')
            if r == name:
                return True
    return False
