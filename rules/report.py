"""Check context: obligations, violations, known findings, evidence writer."""
import json, os, sys, time

VERIF = os.path.dirname(os.path.dirname(os.path.abspath(__file__)))
# runs against a scratch copy (PV_REPO set: self-tests, seeded changes) must never overwrite the evidence of /repo itself
SCRATCH = bool(os.environ.get('PV_REPO')) and os.environ.get('PV_REPO') != '/repo'
EVDIR = os.path.join(VERIF, '.cache', 'scratch-evidence') if SCRATCH else os.path.join(VERIF, 'evidence')
REPDIR = os.path.join(VERIF, '.cache', 'scratch-reports') if SCRATCH else os.path.join(VERIF, 'reports')


class Check:
    def __init__(self, pid, tier, facts_info=None):
        self.pid = pid
        self.tier = tier
        self.t0 = time.time()
        self.obligations = []   # (rule, key, ok, detail, loc)
        self.observations = []
        self.notes = {}
        self.rules = {}         # rule -> description
        self.facts_info = facts_info or {}
        self.undecided = []
        self.decided = []
        self.assumptions = [
            "rustc nightly front end (type checker, name resolution, MIR construction) as run by the pv-driver wrapper",
            "over-approximate (may-depend) data flow: a must-exist rule can be satisfied by a flow no execution takes - it can miss a violation, not invent one",
            "pairing tables in /verif/rules (which native check corresponds to which circuit assertion; which message precedes which challenge) were written by reading the code",
            "trait calls resolved over in-workspace impls only",
        ]
        try:
            self.seed = int(os.environ.get('VERIF_SEED', '0'))
        except ValueError:
            self.seed = 0
        with open(os.path.join(VERIF, 'known_findings.json')) as fh:
            self.known = [k for k in json.load(fh) if k.get('property') == pid]

    def rule(self, rid, text):
        self.rules[rid] = text

    def ob(self, rule, key, ok, detail='', loc=None):
        """One evaluated rule instance."""
        self.obligations.append((rule, key, bool(ok), detail, loc))
        return bool(ok)

    def floor(self, rule, what, count, floor):
        """Instance-count floor: fail closed if fewer instances matched than were confirmed by hand."""
        self.ob(rule, 'floor:%s' % what, count >= floor, 'matched %d %s, floor %d (a rule matching too few sites would pass vacuously)' % (count, what, floor))

    def observe(self, text):
        if text not in self.observations:
            self.observations.append(text)

    def finish(self, explanation, samples=None):
        viol = [(r, k, d, l) for (r, k, ok, d, l) in self.obligations if not ok]
        known_keys = {(k['rule'], k['key']): k for k in self.known if k.get('status') == 'known'}
        unlisted = []
        known_hit = []
        seen = set()
        for (r, k, d, l) in viol:
            if (r, k) in seen:
                continue
            seen.add((r, k))
            kb = k.split('@')[0]        # same construct seen in another cfg build
            if (r, kb) in known_keys:
                if (r, kb) not in {(a, b.split('@')[0]) for (a, b, _, _) in known_hit}:
                    known_hit.append((r, kb, d, l))
            else:
                unlisted.append((r, k, d, l))
        os.makedirs(REPDIR, exist_ok=True)
        os.makedirs(EVDIR, exist_ok=True)
        for (r, k, d, l) in known_hit:
            print('KNOWN-FINDING: property=%s %s %s -- %s' % (self.pid, r, k, (known_keys[(r, k)].get('id', '') + ' ' + known_keys[(r, k)].get('what', d))[:160]))
        rc = 0
        for i, (r, k, d, l) in enumerate(unlisted):
            rc = 1
            path = os.path.join(REPDIR, '%s-%d.json' % (self.pid, i))
            with open(path, 'w') as fh:
                json.dump({'property': self.pid, 'rule': r, 'rule_text': self.rules.get(r, ''), 'key': k, 'where': l, 'detail': d,
                           'tree': self.facts_info.get('tree_hash')}, fh, indent=1)
            print('VIOLATION property=%s replay=%s' % (self.pid, path))
            print('  %s  rule %s  instance %s -- %s' % (l or '?', r, k, d))
        nob = len(self.obligations)
        nok = sum(1 for o in self.obligations if o[2])
        distinct = len({(r, k) for (r, k, ok, d, l) in self.obligations if not k.startswith('floor:')})
        if samples is None:
            samples = []
            per_rule = {}
            for (r, k, ok, d, l) in self.obligations:
                if per_rule.get(r, 0) < 2:
                    per_rule[r] = per_rule.get(r, 0) + 1
                    samples.append({'rule': r, 'instance': k, 'where': l, 'verdict': 'holds' if ok else 'VIOLATED', 'detail': d})
        by_rule = {}
        for (r, k, ok, d, l) in self.obligations:
            e = by_rule.setdefault(r, {'text': self.rules.get(r, ''), 'instances': 0, 'holding': 0})
            e['instances'] += 1
            e['holding'] += 1 if ok else 0
        ev = {
            'property_id': self.pid,
            'tier': self.tier,
            'seed': self.seed,
            'level': 'other',
            'coverage': {
                'explanation': explanation,
                'decided_clauses': self.decided,
                'not_decided': self.undecided,
                'obligations': nob,
                'discharged': nok,
                'evaluations': nob,
                'distinct_nontrivial': distinct,
                'rule': 'one obligation = one rule instance whose slots were filled from the type-checked program (struct fields, impls, call sites); distinct = distinct (rule, instance key) pairs, floors excluded',
                'samples': samples[:40],
                'rules': by_rule,
                'analysed': self.facts_info,
                'observations': self.observations,
                'known_findings_reproduced': [{'rule': r, 'key': k} for (r, k, d, l) in known_hit],
                'notes': self.notes,
                'exhaustive': False,
            },
            'assumptions': self.assumptions,
            'wall_s': round(time.time() - self.t0, 2),
            'violations': len(unlisted),
        }
        with open(os.path.join(EVDIR, '%s.json' % self.pid), 'w') as fh:
            json.dump(ev, fh, indent=1)
        print('%s [%s]: %d obligations, %d hold, %d known findings, %d violations (%.1fs)' % (self.pid, self.tier, nob, nok, len(known_hit), len(unlisted), time.time() - self.t0))
        return rc


class ConfigProxy:
    """records the obligations of a run on another cfg build under keys suffixed with @config"""
    def __init__(self, ck, cfg):
        self.ck, self.cfg = ck, cfg
        self.decided, self.undecided, self.notes = [], [], {}

    def rule(self, rid, text):
        pass

    def ob(self, rule, key, ok, detail='', loc=None):
        return self.ck.ob(rule, '%s@%s' % (key, self.cfg), ok, detail, loc)

    def floor(self, rule, what, count, floor):
        self.ck.notes.setdefault('instance_counts@' + self.cfg, {})['%s:%s' % (rule, what)] = count

    def observe(self, text):
        self.ck.observe('[%s] %s' % (self.cfg, text))


class FilterProxy:
    """runs another property's rule module but keeps only the listed rules, re-filed under rule ids of this property
    (a necessary condition shared by two properties is decided once and reported under both)"""
    def __init__(self, ck, mapping):
        self.ck, self.mapping = ck, mapping
        self.decided, self.undecided = [], []

    @property
    def notes(self):
        return self.ck.notes

    def rule(self, rid, text):
        pass

    def ob(self, rule, key, ok, detail='', loc=None):
        if rule in self.mapping:
            return self.ck.ob(self.mapping[rule], '%s:%s' % (rule, key), ok, detail, loc)

    def floor(self, rule, what, count, floor):
        if rule in self.mapping:
            return self.ck.floor(self.mapping[rule], '%s %s' % (rule, what), count, floor)

    def observe(self, text):
        pass
