"""C18 - verifiers and proof decoders fail cleanly on malformed input (structural clauses).

R18.1 validators and decoders are total: in their call closure no panic site has an input-derived operand
R18.2 every length of the proof type family is pinned by an error-returning guard before use
R18.3 every entry point validates (and propagates the error) before any other use of the proof
R18.4 no input-sized allocation in the decoders
"""
from . import flow, ob, pins, interval, cha as cha_mod
from .facts import parse_path, strip_generics, split_top, ty_adt

# ----------------------------------------------------------------------------- helpers
PANIC_CALLS = {'unwrap', 'expect', 'remove', 'swap_remove', 'insert', 'split_at', 'split_at_mut', 'copy_from_slice',
               'unwrap_unchecked'}
ALLOC_CALLS = {'with_capacity', 'from_elem', 'reserve', 'reserve_exact', 'resize', 'resize_with'}


TRUSTED_TYPES = ('CommonCircuitData', 'VerifierOnlyCircuitData', 'FriParams', 'FriConfig', 'StarkConfig', 'FriInstanceInfo', 'FriChallenges', 'StarkProofChallenges', 'ProofChallenges',
                 'usize', 'bool', 'CtlCheckVars', 'FriOpenings')


def robust_roots(fn, names):
    """taint roots by parameter name; if a listed name is no longer a parameter (renamed), fall back to every parameter whose
    type is not one of the trusted data types - a rename must not silence or trip the rule"""
    from .facts import pat_binds, ty_adt
    pn = {}
    for p in fn.params:
        for b in pat_binds(p):
            pn[b['n']] = fn.types[b['t']] if b.get('t') is not None else ''
    roots = set(names) & set(pn)
    if set(names) - set(pn):
        for n, t in pn.items():
            a = ty_adt(t) or ''
            if a in TRUSTED_TYPES or len(a) <= 1 or n == 'self' and False:
                continue
            if n in ('stark', 'config', 'common_data', 'params', 'instance', 'instances', 'challenges', 'verifier_data'):
                continue
            roots.add(n)
    return roots


def tainted(v, roots):
    out = []
    for a in flow.flat(v):
        if a.startswith('p:'):
            r = a[2:].split('.')[0].replace('[]', '')
            if r in roots:
                out.append(a)
    return out


def read_tainted(v):
    """values that come out of the byte buffer (decoders)"""
    out = []
    for a in flow.flat(v):
        if a.startswith('c:'):
            n = a[2:].split('::')[-1]
            if n.startswith('read_') or n in ('from_le_bytes', 'from_bytes'):
                out.append(a)
    return out


# exceptions of R18.1: each is itself an obligation (the fact that makes the site safe must still be there)
INDEX_EXCEPTIONS = {
    ('validate_batch_fri_proof_shape', 'leaf_len'):
        dict(reason='leaf_len = vec![0; oracle_count]; indices are enumerate() positions of inst.oracles (== oracle_count by the dominating ensure) or of evals_proofs (== oracle_count by definition)',
             need_pin='evals_proofs', need_src=['F:FriInstanceInfo.oracles']),
    ('read_u8', 'buf'):
        dict(reason='fixed-size local array [0; 1] indexed by the literal 0', need_pin=None, need_src=[]),
    ('read_exact', 'bytes'):
        dict(reason='Buffer::read_exact slices self.bytes[pos..][..n] only in the else-branch of `if self.remaining() < n { Err(IoError) }`', need_guard_call='remaining'),
}
CALL_EXCEPTIONS = {
    ('read_exact', 'copy_from_slice'):
        dict(reason='destination and source slices both have length n = bytes.len() after the remaining() guard', need_guard_call='remaining'),
    ('from_bytes', 'unwrap'):
        dict(reason='see try_into: conversion of constant-size chunks cannot fail', need_const='HASH_SIZE'),
}
# asserts that concern strategy arithmetic on a degree that the validator has range-checked (numeric; reviewed, not decided)
ASSERT_EXCEPTIONS = {
    'reduction_arity_bits': 'ConstantArityBits loop condition degree_bits > final_poly_bits with final_poly_bits >= arity_bits implies its assert for every degree',
    'min_size_arity_bits_helper': 'current_layer_bits = degree_bits + rate_bits - sum(prefix) >= rate_bits is the search invariant (prefixes are only extended while they fit)',
    'relative_proof_size': 'same invariant as min_size_arity_bits_helper',
}


def run(F, ck, tier):
    E = ob.Engine(F, ck)
    C = cha_mod.CHA(F)
    ck.rule('R18.1', 'validators and proof decoders are total: no assert / index / unwrap / panicking std call with an input-derived operand in their call closure')
    ck.rule('R18.2', 'every Vec / cap / Option / polynomial / Merkle-path length in the proof type family is pinned by an Err-returning guard reachable from the entry point')
    ck.rule('R18.3', 'each verification entry point calls its shape validator, propagates its error, and touches the proof with nothing else before that')
    ck.rule('R18.4', 'decoders never allocate with a size read from the input')

    # ---------------------------------------------------------------- R18.1 validators
    validators = [
        ('plonk::validate_shape::validate_proof_with_pis_shape', 'plonky2', {'proof_with_pis'}),
        ('fri::validate_shape::validate_batch_fri_proof_shape', 'plonky2', {'proof'}),
        ('starky::verifier::validate_proof_shape', 'starky', {'proof', 'public_inputs'}),
        ('starky::verifier::check_lookup_options', 'starky', {'auxiliary_polys_cap', 'auxiliary_polys', 'auxiliary_polys_next', 'ctl_zs_first'}),
    ]
    nsites = 0
    for q, crate, roots in validators:
        fn = F.one(q, crate=crate)
        if fn is None:
            ck.ob('R18.1', 'anchor:' + q, False, 'ANCHOR-MISSING: validator %s not found' % q, q)
            continue
        roots = robust_roots(fn, roots)
        fl = flow.Flow(F, fn, inline=C.inline_all(), depth=6, track_idx=True)
        nsites += panic_sites(ck, 'R18.1', fl, fn, lambda v, r=roots: tainted(v, r), 'validator')
    # ---------------------------------------------------------------- R18.1 / R18.4 decoders
    decoders = ['Read::read_proof_with_public_inputs', 'Read::read_compressed_proof_with_public_inputs']
    for q in decoders:
        fn = F.one(q, crate='plonky2')
        if fn is None:
            ck.ob('R18.1', 'anchor:' + q, False, 'ANCHOR-MISSING: decoder %s not found' % q, q)
            continue
        fl = flow.Flow(F, fn, inline=C.inline_all(), depth=7, track_idx=True)
        nsites += panic_sites(ck, 'R18.1', fl, fn, read_tainted, 'decoder')
        nalloc = 0
        for e in fl.events:
            if e.kind == 'call' and e.name in ALLOC_CALLS:
                nalloc += 1
                rt = read_tainted(e.deps())
                key = 'alloc:%s:%s:%s' % (fn.name, e.fn.name, e.name)
                ck.ob('R18.4', key, not rt, ('allocation sized by a value read from the input (%s): a length field in the bytes can request an unbounded allocation' % ', '.join(rt[:3])) if rt
                      else 'allocation size comes from circuit data / constants', e.loc())
        ck.floor('R18.4', 'allocation sites in %s closure' % fn.name, nalloc, 3)
    # serde visitors are decoders too: the bytes / sequence handed to visit_* come straight from the input
    nvis = 0
    for fn in sorted(F.fns.values(), key=lambda f: f.qual):
        if fn.crate not in ('plonky2', 'starky', 'plonky2_field') or fn.body is None or not fn.name.startswith('visit_'):
            continue
        from .facts import pat_binds
        roots_v = {b['n'] for p in fn.params for b in pat_binds(p)} - {'self'}
        flv = flow.Flow(F, fn, track_idx=True)
        nvis += 1
        nsites += panic_sites(ck, 'R18.1', flv, fn, lambda v, r=roots_v: tainted(v, r), 'visitor')
    ck.floor('R18.1', 'serde visitor methods examined', nvis, 2)
    ck.floor('R18.1', 'panic-capable sites examined in validator/decoder closures', nsites, 10)

    # ---------------------------------------------------------------- R18.2 pins
    pins.check(F, ck, 'R18.2')
    # the STARK trace length comes from the proof, a fixed FRI schedule from the configuration: the validator relates them
    E.check('R18.2', dict(id='stark.schedule-fits', fn='starky::verifier::validate_proof_shape', crate='starky', kind='guard',
                          src=['c:total_arities', 'c:recover_degree_bits'], ctx={'uncond': True},
                          why='the FRI shape validation subtracts the arities of the schedule from the (proof-derived) domain size: an Err-guard must make sure the schedule fits'))

    # ---------------------------------------------------------------- R18.3 validate before use
    ventries = [
        ('plonk::verifier::verify', 'plonky2', {'proof_with_pis'}, 'validate_proof_with_pis_shape'),
        ('CompressedProofWithPublicInputs::verify', 'plonky2', {'self'}, None),
        ('CompressedProofWithPublicInputs::decompress', 'plonky2', {'self'}, None),
        ('fri::verifier::verify_fri_proof', 'plonky2', {'proof'}, 'validate_fri_proof_shape'),
        ('batch_fri::verifier::verify_batch_fri_proof', 'plonky2', {'proof'}, 'validate_batch_fri_proof_shape'),
        ('starky::verifier::verify_stark_proof', 'starky', {'proof_with_pis'}, 'validate_proof_shape'),
        ('starky::verifier::verify_stark_proof_with_challenges', 'starky', {'proof', 'public_inputs'}, 'validate_proof_shape'),
    ]
    ALLOWED_BEFORE = {'len', 'get_public_inputs_hash', 'hash_no_pad', 'not', 'new', 'is_some', 'is_none', 'debug', 'type_name', 'log'}
    for q, crate, roots, validator in ventries:
        cands = [f for f in F.find(q, crate=crate) if not f.trait]
        if len(cands) != 1:
            ck.ob('R18.3', 'anchor:' + q, False, 'ANCHOR-MISSING: entry point %s (%d candidates)' % (q, len(cands)), q)
            continue
        fn = cands[0]
        roots = robust_roots(fn, roots)
        # one level of inlining so that a wrapper delegating to the validating function is seen through
        fl = flow.Flow(F, fn, inline=C.inline_only({'verify_stark_proof_with_challenges'}) if fn.name == 'verify_stark_proof' else None, depth=1)
        vnames = {'validate_proof_with_pis_shape', 'validate_proof_shape', 'validate_fri_proof_shape', 'validate_batch_fri_proof_shape', 'validate_compressed_proof_with_pis_shape', 'validate_compressed_proof_shape'}
        for n_ in sorted(vnames):
            c_ = [f for f in F.fns.values() if f.name == n_ and f.owner is None and f.crate in ('plonky2', 'starky')]
            if len(c_) == 1:
                F.record_callee(n_, c_[0].d)
            rn_ = F.renamed_callee(n_)
            if rn_:
                vnames.add(rn_)
        validated = False
        early = []
        for e in fl.events:
            if e.kind != 'call':
                continue
            if e.name == 'verify_stark_proof_with_challenges' and fn.name == 'verify_stark_proof':
                continue   # seen through (inlined)
            if e.name in vnames:
                if e.tried and tainted(e.deps(), roots):
                    validated = True
                    break
                continue
            if e.name in ALLOWED_BEFORE or (e.callee or '').startswith('std::') or (e.callee or '').startswith('core::') or 'anyhow' in (e.callee or '') or (e.callee or '').startswith('log::'):
                continue
            t = tainted(e.deps(), roots)
            if t:
                early.append(e)
        key0 = 'validated:%s' % fn.qual
        ck.ob('R18.3', key0, validated, 'entry point %s never calls a shape validator with `?` on its proof argument: every later index / unwrap on the proof is reachable with a malformed value' % fn.qual
              if not validated else 'shape validator called and propagated', '%s:%d' % (fn.file, fn.line))
        seen = set()
        for e in early:
            key = 'before-validate:%s:%s' % (fn.qual, e.q)
            if key in seen:
                continue
            seen.add(key)
            ck.ob('R18.3', key, False, '%s uses the proof in %s() %s: a malformed proof reaches this call unvalidated' % (fn.qual, e.q, 'before the shape validator runs' if validated else '(there is no validation at all on this path)'), e.loc())
    canonical_boundary(F, ck)
    assert_sites(F, ck, C)
    unsigned_sub_discharge(F, ck)
    chunk_sites(F, ck, C)
    if tier == 'thorough':
        census(F, ck, C)
    ck.decided += ['validators/decoders contain no input-reachable panic site (asserts, unchecked indexing, unwraps) in their workspace call closure',
                   'every vector/cap/option length of Proof, FriProof, StarkProof is pinned by a guard', 'entry points validate before use', 'no input-sized allocation in proof decoders']
    ck.undecided += ['panic-freedom of the whole verifier after validation (needs length reasoning; see thorough census)', 'that accepted proofs are valid (C02/C03/C05)']
    return ('Decides structural necessary conditions of C18: totality of validators and decoders w.r.t. input-derived operands, exhaustive length pinning of the proof type family, '
            'validate-before-use at each entry point and absence of input-sized allocation. Does not decide panic-freedom of all post-validation code.')


def canonical_boundary(F, ck):
    """R18.8: the field decoder rejects exactly the non-canonical encodings: it errs when n - ORDER >= 0 (normalised), so that
    `from_canonical_u64` (which asserts n < ORDER in debug builds and wraps silently in release builds) never sees n >= ORDER"""
    from . import poly
    from .facts import walk
    ck.rule('R18.8', 'Read::read_field returns Err exactly when the decoded word n satisfies n - ORDER >= 0 (comparison normalised algebraically)')
    c = [f for f in F.find('Read::read_field', crate='plonky2') if f.body is not None]
    if len(c) != 1:
        ck.ob('R18.8', 'anchor', False, 'ANCHOR-MISSING Read::read_field')
        return
    fn = c[0]
    E = poly.Ev(F)
    found = None
    for n in walk(fn.body):
        if n.get('k') != 'If':
            continue
        errs_then = flow.diverges_with_err(n['th']) or flow.tail_is_err(n['th'])
        errs_else = n.get('el') is not None and (flow.diverges_with_err(n['el']) or flow.tail_is_err(n['el']))
        if not (errs_then or errs_else):
            continue
        cnd = n['c']
        neg = errs_else and not errs_then      # error when the condition is FALSE
        while cnd.get('k') == 'Un' and cnd.get('op') == 'Not':
            neg = not neg
            cnd = cnd['e']
        if cnd.get('k') != 'Bin' or cnd['op'] not in ('Lt', 'Le', 'Gt', 'Ge'):
            continue
        if not any(x.get('k') == 'Def' and x['d'].split('::')[-1] == 'ORDER' for x in walk(cnd)):
            continue
        env = {}
        for x in walk(cnd):
            if x.get('k') == 'Local':
                env[x['id']] = poly.sym('n')
        try:
            d = poly.add(E.ev(fn, cnd['l'], env, 1), E.ev(fn, cnd['r'], env, 1), -1)
        except poly.Unknown:
            continue
        op = cnd['op']
        if neg:
            op = {'Lt': 'Ge', 'Le': 'Gt', 'Gt': 'Le', 'Ge': 'Lt'}[op]
        # error-condition  l op r  ->  bring to  e >= 0
        if op in ('Lt', 'Le'):
            d = poly.add({}, d, -1)
            op = 'Gt' if op == 'Lt' else 'Ge'
        if op == 'Gt':
            d = poly.add(d, poly.const(1), -1)
        found = (d, n)
    if found is None:
        ck.ob('R18.8', 'read_field.canonical', False, 'Read::read_field no longer rejects words >= ORDER with an error', '%s:%d' % (fn.file, fn.line))
        return
    d, n = found
    ok = d == {('n',): 1, ('ORDER',): -1}
    ck.ob('R18.8', 'read_field.canonical', ok, 'errs exactly when n - ORDER >= 0' if ok else
          'Read::read_field errs when %s >= 0 instead of n - ORDER >= 0: the word equal to the field order (or other non-canonical words) is passed to from_canonical_u64, which panics in debug builds and accepts a second encoding of the same element in release builds' % poly.show(d), n.get('s'))


def unsigned_sub_discharge(F, ck):
    """R18.9: StarkProof::recover_degree_bits subtracts two quantities of which one comes from the proof (a Merkle path length);
    the validator that runs before it must have compared exactly those two quantities."""
    from . import poly
    from .facts import walk
    ck.rule('R18.9', 'the unsigned subtraction in recover_degree_bits (cap_height + path length - rate_bits) is discharged by an earlier Err-guard of the STARK shape validator with exactly that difference >= 0 (polynomials over type-qualified fields)')
    E = poly.Ev(F)
    rec = [f for f in F.find('StarkProof::recover_degree_bits', crate='starky') if f.body is not None]
    val = [f for f in F.find('starky::verifier::validate_proof_shape', crate='starky') if f.body is not None] or [f for f in F.fns.values() if f.crate == 'starky' and f.name == 'validate_proof_shape' and f.body is not None]
    if not rec or not val:
        ck.ob('R18.9', 'anchor', False, 'ANCHOR-MISSING StarkProof::recover_degree_bits / starky validate_proof_shape')
        return
    subs = []
    for f in rec[:1]:
        env = {}
        for x in walk(f.body):
            if x.get('k') == 'Let' and 'i' in x and x['p'].get('k') == 'Bind':
                try:
                    env[x['p']['id']] = E.ev(f, x['i'], env, 3)
                except poly.Unknown as ex:
                    env[x['p']['id']] = ex
        for x in walk(f.body):
            if x.get('k') == 'Bin' and x.get('op') == 'Sub':
                try:
                    subs.append(poly.add(E.ev(f, x['l'], env, 3), E.ev(f, x['r'], env, 3), -1))
                except poly.Unknown:
                    subs.append(None)
    if len(subs) != 1 or subs[0] is None:
        ck.ob('R18.9', 'recover_degree_bits.sub', False, 'ANCHOR-MISSING: recover_degree_bits no longer consists of one evaluable subtraction (%d found)' % len(subs), '%s:%d' % (rec[0].file, rec[0].line))
        return
    diffs = poly.cmp_diffs(E, val[0])
    okd = any(d == subs[0] for d, n in diffs)
    ck.ob('R18.9', 'recover_degree_bits.sub', okd, 'validator guard: %s >= 0' % poly.show(subs[0]) if okd else
          'UNDERFLOW ON A MALFORMED PROOF: recover_degree_bits computes %s as an unsigned subtraction, but the validator that runs before it has no guard with exactly that difference >= 0 (its comparisons: %s): '
          'a proof with a short first Merkle path makes verify_stark_proof panic (debug) or continue with a huge trace length (release)' % (poly.show(subs[0]), [poly.show(d) for d, n in diffs][:6]),
          '%s:%d' % (val[0].file, val[0].line))


def assert_sites(F, ck, C):
    """R18.7: an assert! / debug_assert! whose condition looks at the LENGTH or PRESENCE of a part of the proof is a panic on malformed
    input unless an Err-returning guard on that same part runs before it, and runs for every configuration: a guard that sits in
    one arm of an `if` on trusted data (e.g. `if stark.uses_lookups() {..} else {..}`) only counts if the other arm has one too."""
    ck.rule('R18.7', 'every assert / debug_assert on the length or presence of a proof part in a verification closure is preceded by an Err-returning guard on that part which runs in every configuration')
    entries = (('plonk::verifier::verify', 'plonky2', {'proof_with_pis'}, 'plonky2::plonk::proof::ProofWithPublicInputs<F, C, D>'),
               ('starky::verifier::verify_stark_proof', 'starky', {'proof_with_pis'}, 'starky::proof::StarkProofWithPublicInputs<F, C, D>'))
    nas = 0
    for q, crate, roots, ty in entries:
        root = F.one(q, crate=crate)
        if root is None:
            ck.ob('R18.7', 'anchor:' + q, False, 'ANCHOR-MISSING ' + q)
            continue
        roots = robust_roots(root, roots)

        def inl(c, d, ev):
            t = [f for f in C.targets(c, d) if f.crate in ('plonky2', 'starky', 'plonky2_util')]
            t = [f for f in t if not any(x in f.file for x in ('hash/poseidon', 'hash/keccak', 'hash/hashing', 'gates/', 'gadgets/', 'hash/arch'))]
            return t[:4]
        fl = flow.Flow(F, root, inline=inl, depth=9)
        req = []
        pname = sorted(roots)[0]
        pins.required_pins(F, ty, 'p:' + pname, req)
        valid = {a for alts, _ in req for a in alts}
        # effective pins so far, in event order
        seen = []          # (path, unconditional?, (if-node id, arm))
        done = set()
        for e in fl.events:
            if e.kind == 'guard':
                for a in e.pins:
                    frames = [fr for fr in e.ctx if fr[0] == 'if' and not any(c == a or c.startswith(a + '.') or c.startswith(a + '[') or a.startswith(c + '.') or a.startswith(c + '[') for c in flow.flat(fr[1]) if c.startswith('p:'))]
                    frames = [fr for fr in frames if flow.flat(fr[1])]
                    if not frames:
                        seen.append((a, True, None))
                    else:
                        fr = frames[-1]
                        seen.append((a, False, (id(fr[2]), fr[3] if len(fr) > 3 else None)))
            elif e.kind == 'assert':
                # only assertions about shape: the condition mentions len()/is_some()/is_none()/is_empty() of a proof path
                lp = set(e.pins)
                if not lp:
                    continue
                tp = [a for a in lp if a.startswith('p:') and a[2:].split('.')[0].split('[')[0] in roots]
                # only genuine access paths of the proof type (the type walk of the pin rule enumerates them)
                tp = [a for a in tp if a in valid]
                if not tp:
                    continue
                key = 'assert:%s:%s' % (e.fn.qual, '+'.join(sorted(x[2:].split('.', 1)[-1] for x in tp))[:80])
                if key in done:
                    continue
                done.add(key)
                nas += 1
                bad = []
                for a in tp:
                    cov = [s_ for s_ in seen if s_[0] == a or a.startswith(s_[0] + '[') or s_[0].startswith(a + '[')]
                    ok = any(u for _, u, _ in cov)
                    if not ok:
                        arms = {}
                        for _, u, fa in cov:
                            if fa:
                                arms.setdefault(fa[0], set()).add(str(fa[1]))
                        ok = any(len(v) >= 2 for v in arms.values())
                    if not ok:
                        bad.append(a[2:])
                ck.ob('R18.7', key, not bad, 'guarded before it is asserted' if not bad else
                      'ASSERTION ON UNVALIDATED PROOF SHAPE: %s asserts (%s) on %s, but no Err-returning guard on that part runs before it in every configuration (a guard in one arm of a configuration-dependent `if` is not enough): '
                      'a malformed proof panics (in debug builds for debug_assert!) instead of being rejected' % (e.fn.qual, e.extra or 'assert', ', '.join(bad)), e.loc())
    ck.floor('R18.7', 'shape assertions on proof parts in the verification closures', nas, 2)


CHUNKERS = {'chunks', 'chunks_exact', 'rchunks', 'rchunks_exact', 'windows', 'chunks_mut', 'chunks_exact_mut', 'step_by'}


def _zero_lit(n):
    return n.get('k') == 'Lit' and n.get('lk') == 'int' and str(n.get('v')) in ('0', '1')


def _mentions(n, names):
    from .facts import walk
    return any(x.get('k') in ('MCall', 'Call') and ((x.get('n') in names) or (x.get('k') == 'Call' and (x['f'].get('d') or '').split('::')[-1] in names)) for x in walk(n)) \
        or any(x.get('k') == 'Local' and x.get('n') in names for x in walk(n))


def positive_zero_tests(cond, names, recv_paths, fl, fr_eval):
    """does `cond` (the condition of an Err-returning guard) force "size > 0 whenever the chunked value is present"?
    accepted forms: a > / != / >= comparison of a size expression with 0 or 1; any comparison of it paired by ==/!= with a presence
    test; a (negated) is_empty() on the chunked value.  `size == 0` alone (the None arm of today's code) is not one."""
    from .facts import walk
    for x in walk(cond):
        if x.get('k') == 'Bin':
            l, r, op = x['l'], x['r'], x['op']
            if op in ('Gt', 'Ne', 'Ge') and _zero_lit(r) and _mentions(l, names):
                return True
            if op in ('Lt', 'Ne', 'Le') and _zero_lit(l) and _mentions(r, names):
                return True
            if op in ('Eq', 'Ne'):
                for a, b in ((l, r), (r, l)):
                    if any(y.get('k') == 'MCall' and y.get('n') in ('is_some', 'is_none') for y in walk(a)) and _mentions(b, names):
                        return True
        if x.get('k') == 'MCall' and x.get('n') == 'is_empty':
            return True
    return False


def chunk_sites(F, ck, C):
    """R18.6: a chunk size that can be 0 for a legitimate configuration must not meet proof data that validation lets through"""
    ck.rule('R18.6', 'chunks()/windows()/step_by() over proof data in a verifier: the size has a lower bound >= 1 (interval analysis through the trait-default size functions), '
                     'or an Err-returning guard forces the size to be positive whenever the chunked part of the proof is present')
    from .facts import walk
    entries = [('starky::verifier::verify_stark_proof_with_challenges', 'starky', {'proof', 'public_inputs'}),
               ('plonk::verifier::verify_with_challenges', 'plonky2', {'proof'}),
               ('fri::verifier::verify_fri_proof', 'plonky2', {'proof', 'openings', 'initial_merkle_caps'}),
               ('batch_fri::verifier::verify_batch_fri_proof', 'plonky2', {'proof', 'openings', 'initial_merkle_caps'})]
    # intervals of the size functions: an abstract trait method may return anything; defaults are evaluated
    calls = {'constraint_degree': (0, interval.INF)}
    for q in ('Stark::quotient_degree_factor',):
        for f in F.find(q, crate='starky'):
            if f.body is not None:
                try:
                    calls[f.name] = interval.ev(f.body, {}, calls)
                except interval.Unknown:
                    pass
    nsite = 0
    for q, crate, roots in entries:
        fn = F.one(q, crate=crate)
        if fn is None:
            ck.ob('R18.6', 'anchor:' + q, False, 'ANCHOR-MISSING: entry point %s' % q, q)
            continue
        roots = robust_roots(fn, roots)

        def inl(c, d, ev):
            t = [f for f in C.targets(c, d) if f.crate in ('plonky2', 'starky')]
            t = [f for f in t if not any(x in f.file for x in ('hash/', 'gates/', 'gadgets/', 'field/'))]
            return t[:3]
        fl = flow.Flow(F, fn, inline=inl, depth=5)
        guards = [e for e in fl.events if e.kind == 'guard']
        for e in fl.events:
            if e.kind != 'call' or e.name not in CHUNKERS or e.node.get('k') != 'MCall' or not e.node.get('a'):
                continue
            tb = tainted(e.recv if e.recv is not None else flow.EMPTY, roots)
            if not tb:
                continue
            nsite += 1
            size = e.node['a'][0]
            key = 'chunk:%s:%s:%s' % (e.fn.name, e.name, base_name(dict(e=e.node['r'])) if True else '')
            try:
                iv = interval.ev(size, {}, calls)
            except interval.Unknown as ex:
                ck.ob('R18.6', key, True, 'size not evaluable by the interval analysis (%s): not decided here (trusted circuit data)' % ex, e.loc())
                continue
            if isinstance(iv, interval.Opt) or iv[0] >= 1:
                ck.ob('R18.6', key, not isinstance(iv, interval.Opt), 'size in [%s, %s]' % (iv[0], iv[1]) if not isinstance(iv, interval.Opt) else 'size is an Option', e.loc())
                continue
            names = {x.get('n') for x in walk(size) if x.get('k') == 'MCall'} | {'num_quotient_polys', 'quotient_degree_factor', 'constraint_degree'}
            prot = None
            for g in guards:
                if not (set(tb) & set(g.pins) or any(a.startswith(b) or b.startswith(a) for a in tb for b in g.pins)):
                    continue
                cond = g.node.get('c') if g.node.get('k') == 'If' else g.node.get('e')
                if cond is not None and positive_zero_tests(cond, names, tb, fl, None):
                    prot = g
                    break
            # an enclosing `if size > 0` at the site itself
            if prot is None:
                for fr_ in e.ctx:
                    if fr_[0] == 'if' and positive_zero_tests(fr_[2].get('c') or fr_[2], names, tb, fl, None):
                        prot = fr_[2]
                        break
            ck.ob('R18.6', key, prot is not None,
                  'size can be 0 but a guard forces it positive when the data is present' if prot is not None else
                  'PANIC ON MALFORMED PROOF: %s(%s) in %s - the size evaluates to [%s, %s] (0 for a STARK without constraints), the chunked value %s comes from the proof, and no Err-returning guard forces the size to be '
                  'positive when that part of the proof is present: a proof carrying an (empty) value there reaches chunks(0), which panics' % (e.name, 'size', e.fn.qual, iv[0], iv[1], tb[0][2:]), e.loc())
    ck.floor('R18.6', 'chunking sites over proof data in verifier closures', nsite, 2)


def census(F, ck, C):
    """R18.5 (thorough, informational): panic-capable sites with an input-derived operand in the whole closure of the verification
    entry points, after validation.  Whether such a site can fire depends on length reasoning this analysis does not do, so the
    sites are listed as UNREVIEWED in the evidence and never affect the verdict."""
    out = {}
    for q, crate, roots in (('plonk::verifier::verify', 'plonky2', {'proof_with_pis'}), ('starky::verifier::verify_stark_proof', 'starky', {'proof_with_pis'})):
        root = F.one(q, crate=crate)
        if root is None:
            continue

        def inl(c, d, ev):
            t = [f for f in C.targets(c, d) if f.crate in ('plonky2', 'starky', 'plonky2_util')]
            t = [f for f in t if not any(x in f.file for x in ('hash/poseidon', 'hash/keccak', 'hash/hashing', 'gates/', 'gadgets/', 'hash/arch'))]
            return t[:4]
        fl = flow.Flow(F, root, inline=inl, depth=9, track_idx=True)
        pins = set()
        for e in fl.events:
            if e.kind == 'guard':
                pins |= e.pins
        sites = {}
        for e in fl.events:
            site = None
            if e.kind == 'assert':
                site = ('assert', str(e.extra), tainted(e.val, roots))
            elif e.kind == 'index':
                bt = e.fn.ty(e.node['e']) or ''
                if bt.startswith('[') and e.node['i'].get('k') == 'Lit':
                    continue
                tb, ti = tainted(e.recv, roots), tainted(e.args[0], roots)
                if tb and not ti and all(a in pins for a in tb if not any(b != a and (a.startswith(b + '.') or a.startswith(b + '[')) for b in tb)):
                    continue
                site = ('index', base_name(e.node), tb + ti)
            elif e.kind == 'call' and e.name in PANIC_CALLS:
                site = ('call', e.name, tainted(e.deps(), roots))
            if site and site[2]:
                sites.setdefault('%s:%s:%s' % (e.fn.qual, site[0], site[1]), e.loc())
        out[root.qual] = {'events': len(fl.events), 'unreviewed_sites': len(sites), 'sites': sorted(sites)[:80]}
    ck.notes['R18.5 census (informational, UNREVIEWED sites: value-tainted panic-capable sites after validation)'] = out


def panic_sites(ck, rule, fl, root_fn, taint, kind):
    n = 0
    seen = set()
    pins = set()
    for e in fl.events:
        if e.kind == 'guard':
            pins |= e.pins
    for e in fl.events:
        site = None
        if e.kind == 'assert':
            t = taint(e.val)
            site = ('assert', e.extra or 'assert', t)
        elif e.kind == 'index':
            t = taint(e.recv) + taint(e.args[0])
            # fixed arrays indexed by literals are compile-time checked
            bt = e.fn.ty(e.node['e']) or ''
            if bt.startswith('[') and e.node['i'].get('k') == 'Lit':
                continue
            # a fixed-size array can only be indexed out of bounds by its INDEX: tainted contents do not matter
            if bt.startswith('[') and ';' in bt and not taint(e.args[0]):
                continue
            site = ('index', base_name(e.node), t)
        elif e.kind == 'call' and e.name in PANIC_CALLS:
            t = taint(e.deps())
            site = ('call', e.name, t)
        if site is None:
            continue
        n += 1
        skind, what, t = site
        key = '%s:%s:%s:%s:%s' % (kind, root_fn.name, e.fn.name, skind, what)
        if key in seen and not t:
            continue
        seen.add(key)
        if not t:
            ck.ob(rule, key, True, 'operand not input-derived', e.loc())
            continue
        exc = None
        if skind == 'index':
            # discharge (i): the indexed collection's length is constrained by an Err-guard on exactly that path
            # (non-emptiness / equality with a trusted length) and the index is a literal or not input-derived
            bpaths = [a for a in taint(e.recv)]
            idx_t = taint(e.args[0])
            if bpaths and not idx_t and all(a in pins for a in bpaths if not any(b != a and (a.startswith(b + '.') or a.startswith(b + '[')) for b in bpaths)):
                ck.ob(rule, key, True, 'index into %s: its length is pinned by a guard and the index is not input-derived' % what, e.loc())
                continue
            exc = INDEX_EXCEPTIONS.get((e.fn.name, what))
        elif skind == 'assert' and guarded_by_caller(fl, e, taint):
            ck.ob(rule, key, True, 'assertion on a value that the caller already rejected with Err for the same bound', e.loc())
            continue
        elif skind == 'call':
            exc = CALL_EXCEPTIONS.get((e.fn.name, what))
        elif skind == 'assert' and e.fn.name in ASSERT_EXCEPTIONS and kind == 'validator' and root_fn.crate == 'starky':
            # only excused when the validator bounds the recovered degree: a guard must pin the Merkle path length
            okb = any('siblings' in p_ or p_.endswith('.1') for p_ in pins)
            ck.ob(rule, key, okb, ('reviewed (numeric, not decided): ' + ASSERT_EXCEPTIONS[e.fn.name]) if okb else
                  'assert in %s is reached with a degree recovered from the proof and no guard bounds the Merkle path length it is recovered from' % e.fn.qual, e.loc())
            continue
        if exc is not None:
            ok = True
            why = ''
            if exc.get('need_pin'):
                ok = any(exc['need_pin'] in p_ for p_ in pins)
                why = 'no guard pins %s any more' % exc['need_pin']
            if exc.get('need_guard_call'):
                ok = any(g.kind == 'guard' and g.fn is e.fn and flow.has_call(g.val, exc['need_guard_call']) for g in fl.events)
                why = 'the guard on %s() in %s is gone' % (exc['need_guard_call'], e.fn.qual)
            if exc.get('need_const'):
                ok = any(g.kind == 'call' and g.name == 'from_elem' and g.fn.name == 'read_hash' and any(a.startswith('d:') and a.endswith(exc['need_const']) for a in g.deps()) for g in fl.events)
                why = 'read_hash no longer allocates its buffer with the constant %s' % exc['need_const']
            ck.ob(rule, key, ok, ('reviewed: ' + exc['reason']) if ok else 'reviewed exception lost its justification: ' + why, e.loc())
            continue
        dbg = ' (debug builds only)' if str(what).startswith('debug_assert') else ''
        ck.ob(rule, key, False, 'PANIC SITE on input-derived data in the %s closure of %s: %s `%s` in %s%s depends on %s - a malformed input panics instead of returning Err'
              % (kind, root_fn.name, skind, what, e.fn.qual, dbg, ', '.join(sorted(set(x[:60] for x in t))[:3])), e.loc())
    return n


def consts_of(v):
    return {a[2:].split('::')[-1] for a in flow.flat(v) if a.startswith('d:')}


def guarded_by_caller(fl, e, taint):
    """an Err-guard in a calling frame constrains the same tainted value against the same constant(s)"""
    t = set(taint(e.val))
    cs = consts_of(e.val)
    if not t or not cs:
        return False
    for g in fl.events:
        if g.kind != 'guard':
            continue
        if len(g.stack) >= len(e.stack) or e.stack[:len(g.stack)] != g.stack:
            continue
        if t <= set(taint(g.val)) | set(flow.flat(g.val)) and cs <= consts_of(g.val):
            return True
    return False


def base_name(n):
    b = n['e']
    while isinstance(b, dict):
        if b.get('k') == 'Local':
            return b['n']
        if b.get('k') == 'Field':
            return b['n']
        if b.get('k') in ('Ref', 'Un', 'Index', 'MCall'):
            b = b.get('e') or b.get('r')
        else:
            break
    return '?'
