"""R17.5 - the lengths a proof decoder reads are the lengths the circuit prescribes.

`read_proof_with_public_inputs` stores no lengths: every vector of a proof is read with a length recomputed from the
common circuit data.  Two other places compute the same lengths: the FRI oracle table (`CommonCircuitData::fri_oracles`,
number of polynomials per oracle, plus salt for blinding oracles) and the native shape validator
(`validate_proof_shape`, one equality per opening field).  Each length expression is normalised to a polynomial over
type-qualified struct fields (poly.py) and the polynomials are compared.  A decoder length that differs makes a proof that was
written by the library undecodable (or decodable into a different shape) for some circuits.
"""
from . import poly, flow
from .facts import walk, parse_path, callee


def _lets(E, fn):
    env = {}
    for s in fn.body.get('st', []):
        if s.get('k') == 'Let' and 'i' in s and s['p'].get('k') == 'Bind':
            try:
                env[s['p']['id']] = E.ev(fn, s['i'], env, 4)
            except poly.Unknown as ex:
                env[s['p']['id']] = ex
    return env


def check(F, ck, rule):
    E = poly.Ev(F)
    # ---------------------------------------------------------------- (a) initial-tree leaves vs FRI oracles
    rd = F.one('Read::read_fri_initial_proof', crate='plonky2')
    fo = [f for f in F.find('CommonCircuitData::fri_oracles', crate='plonky2')]
    if rd is None or len(fo) != 1:
        ck.ob(rule, 'anchor:initial-proof', False, 'ANCHOR-MISSING: Read::read_fri_initial_proof / CommonCircuitData::fri_oracles')
    else:
        fo = fo[0]
        env = _lets(E, rd)
        reads = [n for n in walk(rd.body) if n.get('k') == 'MCall' and n['n'] == 'read_field_vec' and n.get('a')]
        oracles = [n for n in walk(fo.body) if n.get('k') == 'Struct' and (n.get('d') or '').endswith('FriOracleInfo')]
        ck.ob(rule, 'leaf-count', len(reads) == len(oracles) and len(reads) >= 4, '%d leaf reads, %d oracles' % (len(reads), len(oracles)) if len(reads) == len(oracles) else
              'read_fri_initial_proof reads %d leaves but the circuit has %d FRI oracles' % (len(reads), len(oracles)), '%s:%d' % (rd.file, rd.line))
        for i, (r, o) in enumerate(zip(reads, oracles)):
            try:
                pr = E.ev(rd, r['a'][0], env, 4)
                of = dict(o['f'])
                po = E.ev(fo, of['num_polys'], {}, 4)
                # blinding flag of the oracle: PlonkOracle::X.blinding
                bl = None
                b = of.get('blinding')
                if b is not None and b.get('k') == 'Field' and b['e'].get('k') == 'Def':
                    c = F.fns.get(b['e']['d'])
                    if c is not None and c.body is not None and c.body.get('k') == 'Struct':
                        lit = dict(c.body['f']).get('blinding')
                        if lit is not None and lit.get('k') == 'Lit':
                            bl = bool(lit['v']) if not isinstance(lit['v'], str) else lit['v'] == 'true'
                salt = {m: c for m, c in pr.items() if any(s.startswith('salt_size') for s in m)}
                body = {m: c for m, c in pr.items() if m not in salt}
                ok = body == po
                ck.ob(rule, 'leaf-len:oracle%d' % i, ok, 'decoder and oracle table agree: %s' % poly.show(po) if ok else
                      'DECODER LENGTH MISMATCH: read_fri_initial_proof reads %s elements for the leaf of oracle %d, but that oracle commits to %s polynomials (CommonCircuitData::fri_oracles): proofs of circuits where the two differ '
                      '(e.g. lookups with more than one challenge) no longer decode' % (poly.show(body), i, poly.show(po)), r.get('s'))
                if bl is not None:
                    oks = (len(salt) == 1 and list(salt.values()) == [1]) if bl else not salt
                    ck.ob(rule, 'leaf-salt:oracle%d' % i, oks, 'salt %s as the oracle is %sblinding' % ('added' if bl else 'absent', '' if bl else 'not ') if oks else
                          'read_fri_initial_proof %s salt for oracle %d whose blinding flag is %s' % ('adds' if salt else 'omits', i, bl), r.get('s'))
            except poly.Unknown as ex:
                ck.observe('%s leaf %d not applicable: expression outside the polynomial normaliser (%s)' % (rule, i, ex))
    # ---------------------------------------------------------------- (b) opening set vs shape validator
    ro = F.one('Read::read_opening_set', crate='plonky2')
    vs = F.one('plonk::validate_shape::validate_proof_shape', crate='plonky2')
    if ro is None or vs is None:
        ck.ob(rule, 'anchor:opening-set', False, 'ANCHOR-MISSING: Read::read_opening_set / validate_proof_shape')
        return
    env = _lets(E, ro)
    # field <- local <- read_field_ext_vec(len)
    local_len = {}
    for s in walk(ro.body):
        if s.get('k') == 'Let' and 'i' in s and s['p'].get('k') == 'Bind':
            calls = [n for n in walk(s['i']) if n.get('k') == 'MCall' and n['n'] in ('read_field_ext_vec', 'read_field_vec') and n.get('a')]
            if len(calls) == 1:
                local_len[s['p']['id']] = calls[0]
    rlen = {}
    for n in walk(ro.body):
        if n.get('k') == 'Struct' and (n.get('d') or '').endswith('OpeningSet'):
            for f, ex in n['f']:
                x = ex
                while x.get('k') in ('Ref', 'Cast'):
                    x = x['e']
                if x.get('k') == 'Local' and x['id'] in local_len:
                    rlen[f] = local_len[x['id']]
                else:
                    calls = [c for c in walk(ex) if c.get('k') == 'MCall' and c['n'] in ('read_field_ext_vec', 'read_field_vec') and c.get('a')]
                    if len(calls) == 1:
                        rlen[f] = calls[0]
    def _inl(c, d, ev):
        f2 = F.fns.get(c)
        return f2 if (f2 is not None and f2.body is not None and not f2.trait and f2.file == vs.file and f2.owner is None and f2.d != vs.d) else None
    fl = flow.Flow(F, vs, inline=_inl, depth=2)
    vlen = {}
    for g in fl.events:
        if g.kind != 'guard':
            continue
        for rel, lp, rp, weak, ln, rn, gfn in g.cmps:
            if rel != 'Eq' or weak:
                continue
            for paths, other in ((lp, rn), (rp, ln)):
                for a in paths:
                    segs = a[2:].split('.')
                    if len(segs) >= 3 and segs[-2] == 'openings':
                        vlen[segs[-1].replace('[]', '')] = (other, gfn)
    venv = _lets(E, vs)
    n = 0
    a = F.adts.get('plonky2::plonk::proof::OpeningSet')
    fields = [f for f, t, _ in a['variants'][0]['f']] if a else []
    for f in fields:
        if f not in rlen or f not in vlen:
            ck.ob(rule, 'opening-len:' + f, False, 'length of OpeningSet.%s not found in %s' % (f, 'the decoder' if f not in rlen else 'the shape validator'), '%s:%d' % (ro.file, ro.line))
            continue
        n += 1
        try:
            pr = E.ev(ro, rlen[f]['a'][0], env, 4)
            vn = vlen[f][0]
            while vn.get('k') in ('Ref', 'Un', 'Cast') or (vn.get('k') == 'Local' and vn['id'] in fl.alias):
                vn = fl.alias[vn['id']] if vn.get('k') == 'Local' else vn['e']
            pv = E.ev(vlen[f][1], vn, venv if vlen[f][1].d == vs.d else {}, 4)
            ok = pr == pv
            ck.ob(rule, 'opening-len:' + f, ok, 'decoder and validator agree: %s' % poly.show(pv) if ok else
                  'DECODER LENGTH MISMATCH: read_opening_set reads %s values for OpeningSet.%s but validate_proof_shape requires %s: every decoded proof of a circuit where they differ is rejected (or mis-shaped)' %
                  (poly.show(pr), f, poly.show(pv)), rlen[f].get('s'))
        except poly.Unknown as ex:
            ck.observe('%s opening %s not applicable: expression outside the polynomial normaliser (%s)' % (rule, f, ex))
    ck.floor(rule, 'opening-set lengths located in both decoder and validator', n, 9)


def target_leaves(F, ck, rule):
    """R06.9: the leaf sizes with which CircuitBuilder::add_virtual_proof creates the FRI proof targets equal the oracle table
    (number of polynomials, plus salt exactly for blinding oracles) - the same comparison as for the byte decoder"""
    E = poly.Ev(F)
    av = [f for f in F.find('CircuitBuilder::add_virtual_proof', crate='plonky2')]
    fo = [f for f in F.find('CommonCircuitData::fri_oracles', crate='plonky2')]
    if len(av) != 1 or len(fo) != 1:
        ck.ob(rule, 'anchor:add_virtual_proof', False, 'ANCHOR-MISSING: CircuitBuilder::add_virtual_proof / CommonCircuitData::fri_oracles')
        return
    av, fo = av[0], fo[0]
    env = {}
    for s_ in walk(av.body):
        if s_.get('k') == 'Let' and 'i' in s_ and s_['p'].get('k') == 'Bind' and s_['p']['id'] not in env:
            try:
                env[s_['p']['id']] = E.ev(av, s_['i'], env, 4)
            except poly.Unknown as ex:
                env[s_['p']['id']] = ex
    # the vector handed to add_virtual_fri_proof: its literal elements, then the pushes
    call = [x for x in walk(av.body) if x.get('k') == 'MCall' and x.get('n') == 'add_virtual_fri_proof' and x.get('a')]
    if not call:
        ck.ob(rule, 'anchor:add_virtual_fri_proof', False, 'add_virtual_proof no longer calls add_virtual_fri_proof', '%s:%d' % (av.file, av.line))
        return
    v = call[0]['a'][0]
    while v.get('k') in ('Ref', 'Un', 'Cast'):
        v = v['e']
    elems = []
    if v.get('k') == 'Local':
        vid = v['id']
        for s_ in walk(av.body):
            if s_.get('k') == 'Let' and 'i' in s_ and s_['p'].get('k') == 'Bind' and s_['p']['id'] == vid:
                arrs = [y for y in walk(s_['i']) if y.get('k') == 'Array']
                if arrs:
                    elems = list(arrs[0]['a'])
        for x in walk(av.body):
            if x.get('k') == 'MCall' and x.get('n') == 'push' and x.get('a'):
                r = x['r']
                while r.get('k') in ('Ref', 'Un'):
                    r = r['e']
                if r.get('k') == 'Local' and r['id'] == vid:
                    elems.append(x['a'][0])
    oracles = [n for n in walk(fo.body) if n.get('k') == 'Struct' and (n.get('d') or '').endswith('FriOracleInfo')]
    ck.ob(rule, 'target-leaf-count', len(elems) == len(oracles) and len(elems) >= 4, '%d target leaf sizes, %d oracles' % (len(elems), len(oracles)) if len(elems) == len(oracles) else
          'add_virtual_proof creates %d leaf sizes but the circuit has %d FRI oracles' % (len(elems), len(oracles)), '%s:%d' % (av.file, av.line))
    for i, (el, o) in enumerate(zip(elems, oracles)):
        try:
            pr = E.ev(av, el, env, 4)
            of = dict(o['f'])
            po = E.ev(fo, of['num_polys'], {}, 4)
            bl = None
            b = of.get('blinding')
            if b is not None and b.get('k') == 'Field' and b['e'].get('k') == 'Def':
                c = F.fns.get(b['e']['d'])
                if c is not None and c.body is not None and c.body.get('k') == 'Struct':
                    lit = dict(c.body['f']).get('blinding')
                    if lit is not None and lit.get('k') == 'Lit':
                        bl = bool(lit['v']) if not isinstance(lit['v'], str) else lit['v'] == 'true'
            salt = {m: c for m, c in pr.items() if any(s.startswith('salt_size') for s in m)}
            body = {m: c for m, c in pr.items() if m not in salt}
            ok = body == po
            ck.ob(rule, 'target-leaf-len:oracle%d' % i, ok, 'target and oracle table agree: %s' % poly.show(po) if ok else
                  'TARGET SHAPE MISMATCH: add_virtual_proof sizes the leaf of oracle %d with %s but that oracle commits to %s polynomials: a valid inner proof can no longer be assigned (or is assigned to targets of another shape)' % (i, poly.show(body), poly.show(po)), el.get('s'))
            if bl is not None:
                oks = (len(salt) == 1 and list(salt.values()) == [1]) if bl else not salt
                ck.ob(rule, 'target-leaf-salt:oracle%d' % i, oks, 'salt %s as the oracle is %sblinding' % ('added' if bl else 'absent', '' if bl else 'not ') if oks else
                      'add_virtual_proof %s salt for oracle %d whose blinding flag is %s: under zero-knowledge (hiding) the target leaf has another size than the proof leaf' % ('adds' if salt else 'omits', i, bl), el.get('s'))
        except poly.Unknown as ex:
            ck.observe('%s target leaf %d not applicable: %s' % (rule, i, ex))
