"""A8 - forward interval analysis for unsigned straight-line code (lets, tuple destructuring of overflowing ops, simple ifs).
Every expression is bounded at least by the range of its static type, so the analysis is total; precision comes from masks,
shifts, casts, multiplications of bounded operands and constants (evaluated from the item table)."""
import re

TYMAX = {'u8': 2 ** 8 - 1, 'u16': 2 ** 16 - 1, 'u32': 2 ** 32 - 1, 'u64': 2 ** 64 - 1, 'u128': 2 ** 128 - 1, 'usize': 2 ** 64 - 1, 'bool': 1}


def tymax(t):
    if t is None:
        return None
    t = t.strip()
    return TYMAX.get(t)


class Analysis:
    def __init__(self, F, fn, consts=None, on_call=None):
        self.F, self.fn = F, fn
        self.consts = consts or {}
        self.on_call = on_call
        self.env = {}
        for p in fn.params:
            self.bind_pat(p, None)
        self.block(fn.body, self.env)

    # ---------------------------------------------------------------- helpers
    def ty_range(self, n):
        m = tymax(self.fn.ty(n))
        return (0, m) if m is not None else None

    def bind_pat(self, p, v):
        k = p.get('k')
        if k == 'Bind':
            if v is None or isinstance(v, list):
                m = tymax(self.fn.types[p['t']]) if p.get('t') is not None else None
                v = (0, m) if m is not None else None
            self.env[p['id']] = v
        elif k in ('PTuple',):
            for i, q in enumerate(p['a']):
                self.bind_pat(q, v[i] if isinstance(v, list) and i < len(v) else None)
        elif k == 'PRef':
            self.bind_pat(p['p'], v)

    def const_val(self, d):
        name = d.split('::')[-1]
        if name in self.consts:
            return self.consts[name]
        return None

    # ---------------------------------------------------------------- statements
    def block(self, b, env):
        if b.get('k') != 'Block':
            return self.ev(b)
        for s in b['st']:
            self.stmt(s)
        if 'e' in b:
            return self.ev(b['e'])
        return None

    def stmt(self, s):
        k = s.get('k')
        if k == 'Let':
            v = self.ev(s['i']) if 'i' in s else None
            self.bind_pat(s['p'], v)
        elif k == 'If':
            self.ev(s['c'])
            before = dict(self.env)
            self.block(s['th'], self.env)
            a = self.env
            self.env = dict(before)
            if 'el' in s:
                self.block(s['el'], self.env)
            b = self.env
            self.env = {}
            for key in set(a) | set(b):
                x, y = a.get(key), b.get(key)
                self.env[key] = None if (x is None or y is None or isinstance(x, list) or isinstance(y, list)) else (min(x[0], y[0]), max(x[1], y[1]))
        elif k == 'AssignOp':
            l = s['l']
            self.ev(s['r'])
            if l.get('k') == 'Local':
                m = tymax(self.fn.ty(l))
                self.env[l['id']] = (0, m) if m is not None else None   # wrapping-agnostic: back to the type range
        elif k == 'Assign':
            l = s['l']
            v = self.ev(s['r'])
            if l.get('k') == 'Local':
                self.env[l['id']] = v if not isinstance(v, list) else None
        else:
            self.ev(s)

    # ---------------------------------------------------------------- expressions
    def ev(self, n):
        r = self._ev(n)
        tr = self.ty_range(n) if isinstance(n, dict) and n.get('k') not in ('Block',) else None
        if isinstance(r, list):
            return r
        if r is None:
            return tr
        if tr is not None:
            # a value of this static type cannot exceed its range (debug builds would have panicked; release wraps): clamp only the report
            return (max(r[0], 0), r[1])
        return r

    def _ev(self, n):
        if not isinstance(n, dict):
            return None
        k = n.get('k')
        if k == 'Lit' and n.get('lk') == 'int':
            v = int(n['v'])
            return (v, v)
        if k == 'Local':
            v = self.env.get(n['id'])
            return v
        if k == 'Def':
            c = self.const_val(n.get('d', ''))
            return (c, c) if c is not None else None
        if k == 'Block':
            saved = None
            return self.block(n, self.env)
        if k == 'Ref':
            return self._ev(n['e'])
        if k == 'Un':
            return self._ev(n['e']) if n.get('op') == 'Deref' else None
        if k == 'Field':
            # newtype field .0 of a field element: any u64
            return None
        if k == 'Cast':
            v = self.ev(n['e'])
            m = tymax(self.fn.ty(n))
            if v is None or isinstance(v, list) or m is None:
                return None
            return v if v[1] <= m else (0, m)          # truncating cast
        if k == 'Tup':
            return [self.ev(a) for a in n['a']]
        if k == 'Bin':
            a, b = self.ev(n['l']), self.ev(n['r'])
            if a is None or b is None or isinstance(a, list) or isinstance(b, list):
                return None
            op = n['op']
            if op == 'Add':
                return (a[0] + b[0], a[1] + b[1])
            if op == 'Mul':
                return (a[0] * b[0], a[1] * b[1])
            if op == 'Sub':
                return (max(a[0] - b[1], 0), a[1] - b[0]) if a[1] >= b[0] else None
            if op == 'BitAnd':
                return (0, min(a[1], b[1]))
            if op == 'Shr' and b[0] == b[1]:
                return (a[0] >> b[0], a[1] >> b[0])
            if op == 'Shl' and b[0] == b[1]:
                return (a[0] << b[0], a[1] << b[0])
            if op in ('BitOr', 'BitXor'):
                hi = max(a[1], b[1])
                return (0, (1 << hi.bit_length()) - 1)
            return None
        if k == 'MCall':
            name = n['n']
            r = self.ev(n['r'])
            args = [self.ev(a) for a in n['a']]
            if name in ('overflowing_sub', 'overflowing_add'):
                m = tymax(self.fn.ty(n['r']))
                return [(0, m) if m is not None else None, (0, 1)]
            if name in ('wrapping_sub', 'wrapping_add', 'wrapping_mul'):
                m = tymax(self.fn.ty(n['r']))
                return (0, m) if m is not None else None
            return None
        if k == 'Call':
            from .facts import callee, parse_path
            c = callee(n) or ''
            nm = parse_path(c)[1]
            args = [self.ev(a) for a in n['a']]
            if self.on_call is not None:
                self.on_call(self, n, nm, args)
            if nm == 'split' and len(args) == 1:
                return [(0, 2 ** 64 - 1), (0, 2 ** 64 - 1)]
            return None
        if k == 'If':
            self.stmt(n)
            return None
        for key in ('e',):
            pass
        return None
