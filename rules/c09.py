"""C09 - STARK proofs are accepted exactly for traces that satisfy the constraints (structural clauses)."""
from . import ob, flow, zips, c04, transcript, interval, pins
from .facts import walk, parse_path

FILTERS = {'z_last', 'lagrange_basis_first', 'lagrange_basis_last'}
WRAPPERS = {'constraint_transition': 'z_last', 'constraint_first_row': 'lagrange_basis_first', 'constraint_last_row': 'lagrange_basis_last'}

STARK_NATIVE = [
    dict(id='stark.pis_len', fn='starky::verifier::verify_stark_proof', crate='starky', kind='guard', src=['F:StarkProofWithPublicInputs.public_inputs', 'c:len', 'd:PUBLIC_INPUTS'],
         ctx={'uncond': True, 'noloop': True}, why='number of public inputs matches the STARK'),
    dict(id='stark.shape', fn='starky::verifier::verify_stark_proof_with_challenges', crate='starky', kind='try', callee='validate_proof_shape',
         src=['p:stark', 'p:proof', 'p:public_inputs', 'p:config'], ctx={'uncond': True, 'noloop': True}, why='shape validated and error propagated'),
    dict(id='stark.consumer', fn='starky::verifier::verify_stark_proof_with_challenges', crate='starky', kind='call', callee='ConstraintConsumer::new',
         src=['F:StarkProofChallenges.stark_alphas', 'F:StarkProofChallenges.stark_zeta', 'c:eval_l_0_and_l_last', 'c:primitive_root_of_unity', 'c:recover_degree_bits'],
         why='consumer built from alphas, zeta - g^-1, L_0(zeta), L_last(zeta)'),
    dict(id='stark.vanishing', fn='starky::verifier::verify_stark_proof_with_challenges', crate='starky', kind='call', callee='eval_vanishing_poly',
         src=['p:stark', 'F:StarkOpeningSet.local_values', 'F:StarkOpeningSet.next_values', 'p:public_inputs', 'c:lookups', 'F:StarkOpeningSet.auxiliary_polys', 'F:StarkOpeningSet.auxiliary_polys_next', 'p:ctl_vars',
              'F:LookupChallengeSet.challenges|F:GrandProductChallengeSet.challenges|f:challenges'],
         ctx={'uncond': True}, why='constraints evaluated on the opened local/next values, public inputs, lookup and CTL data'),
    dict(id='stark.quotient_identity', fn='starky::verifier::verify_stark_proof_with_challenges', crate='starky', kind='guard',
         src=['c:accumulators', 'F:StarkOpeningSet.quotient_polys', 'F:StarkProofChallenges.stark_zeta', 'c:reduce_with_powers', 'c:quotient_degree_factor', 'c:recover_degree_bits'],
         ctx={'uncond': True, 'loop': ['F:StarkOpeningSet.quotient_polys']}, whole=True, why='vanishing(zeta) == Z_H(zeta) * t(zeta) for every challenge'),
    dict(id='stark.fri_call', fn='starky::verifier::verify_stark_proof_with_challenges', crate='starky', kind='try', callee='verify_fri_proof',
         src=['F:StarkProof.trace_cap', 'F:StarkProof.auxiliary_polys_cap', 'F:StarkProof.quotient_polys_cap', 'F:StarkProof.openings', 'c:to_fri_openings', 'F:StarkProofChallenges.fri_challenges',
              'c:fri_instance', 'F:StarkProofChallenges.stark_zeta', 'F:StarkProof.opening_proof', 'c:fri_params', 'p:ctl_vars'],
         ctx={'uncond': True, 'noloop': True}, why='FRI binds trace, auxiliary and quotient oracles to the openings'),
    dict(id='stark.entry', fn='starky::verifier::verify_stark_proof', crate='starky', kind='ret',
         src=['c:verify_stark_proof_with_challenges', 'c:get_challenges', 'F:StarkProofWithPublicInputs.proof', 'F:StarkProofWithPublicInputs.public_inputs', 'p:stark', 'p:config'], why='entry point derives challenges from the proof and verifies with them'),
]
VANISH = [
    ('starky::vanishing_poly::eval_vanishing_poly', 'eval_packed_generic', 'eval_packed_lookups_generic', 'eval_cross_table_lookup_checks'),
    ('starky::vanishing_poly::eval_vanishing_poly_circuit', 'eval_ext_circuit', 'eval_ext_lookups_circuit', 'eval_cross_table_lookup_checks_circuit'),
]


def consumer_rules(F, ck):
    for owner in ('ConstraintConsumer', 'RecursiveConstraintConsumer'):
        for w, filt in WRAPPERS.items():
            fns = [f for f in F.find('%s::%s' % (owner, w), crate='starky')]
            if len(fns) != 1:
                ck.ob('R09.1', 'anchor:%s::%s' % (owner, w), False, 'ANCHOR-MISSING %s::%s' % (owner, w))
                continue
            fl = flow.Flow(F, fns[0])
            calls = [e for e in fl.events if e.kind == 'call' and e.name == 'constraint']
            ok = False
            detail = '%s::%s does not end in self.constraint(..)' % (owner, w)
            if calls:
                d = calls[-1].deps()
                used = {x for x in FILTERS if flow.has_field(d, x)}
                ok = used == {filt} and flow.has_param(d, 'constraint')
                detail = 'multiplies by exactly %s' % filt if ok else '%s::%s multiplies its constraint by %s instead of exactly {%s}: the row filter of this constraint class is wrong for prover and verifier alike' % (owner, w, sorted(used) or 'nothing', filt)
            ck.ob('R09.1', 'filter:%s::%s' % (owner, w), ok, detail, '%s:%d' % (fns[0].file, fns[0].line))
        fns = [f for f in F.find('%s::constraint' % owner, crate='starky')]
        if len(fns) == 1:
            fl = flow.Flow(F, fns[0])
            ev = [e for e in fl.events if e.kind == 'assign' and e.in_loop()]
            d = flow.EMPTY
            for e in ev:
                d = d | flow.flat(e.val)
            for e in fl.events:
                if e.kind == 'call' and e.in_loop():
                    d = d | e.deps()
            used = {x for x in FILTERS if flow.has_field(d, x)}
            ok = bool(ev) and not used and flow.has_param(d, 'constraint') and flow.has_field(d, 'alphas')
            ck.ob('R09.1', 'fold:%s::constraint' % owner, ok, 'acc = acc*alpha + constraint for every alpha, no row filter' if ok else
                  '%s::constraint no longer folds the unfiltered constraint into every accumulator with its alpha (filters used: %s)' % (owner, sorted(used)), '%s:%d' % (fns[0].file, fns[0].line))
        else:
            ck.ob('R09.1', 'anchor:%s::constraint' % owner, False, 'ANCHOR-MISSING')
    # constructor call sites: (alphas, z_last, l_0, l_last) positional from eval_l_0_and_l_last's tuple
    nsites = 0
    for fn in F.fns.values():
        if fn.crate != 'starky':
            continue
        fl = None
        for n in walk(fn.body):
            if n.get('k') == 'Call':
                from .facts import callee
                c = callee(n) or ''
                o, nm, _ = parse_path(c)
                if nm == 'new' and o in ('ConstraintConsumer', 'RecursiveConstraintConsumer'):
                    if fl is None:
                        fl = flow.Flow(F, fn, lits=False)
                    ev = [e for e in fl.events if e.node is n]
                    if not ev:
                        continue
                    nsites += 1
                    a = ev[0].args
                    off = 1 if o == 'RecursiveConstraintConsumer' else 0
                    if len(a) < 4 + off:
                        ck.ob('R09.1', 'ctor:%s' % fn.qual, False, 'constructor arity changed', n.get('s'))
                        continue
                    l0, ll = flow.flat(a[2 + off]), flow.flat(a[3 + off])
                    if flow.has_call(l0, 'eval_l_0_and_l_last') or flow.has_call(l0, 'eval_l_0_and_l_last_circuit'):
                        ok = 't:0' in l0 and 't:1' not in l0 and 't:1' in ll and 't:0' not in ll
                        ck.ob('R09.1', 'ctor:%s' % fn.qual, ok, 'L_0 and L_last passed in order' if ok else 'the first-row and last-row Lagrange values are passed to the consumer in the wrong positions in %s' % fn.qual, n.get('s'))
                    else:
                        ck.ob('R09.1', 'ctor:%s' % fn.qual, True, 'prover/test-side construction from precomputed selector tables: positional meaning not decided (a prover-only swap makes honest proofs fail)', n.get('s'))
    ck.floor('R09.1', 'consumer constructor call sites', nsites, 4)


def run(F, ck, tier):
    E = ob.Engine(F, ck)
    ck.rule('R09.1', 'constraint-consumer filter binding: transition <-> z_last, first row <-> L_0, last row <-> L_last; unfiltered fold; constructor positions')
    ck.rule('R09.2', 'native STARK verifier obligation table')
    ck.rule('R09.3', 'eval_vanishing_poly (native and circuit) evaluates the STARK constraints unconditionally, lookups when lookup_vars is Some, CTL checks when ctl_vars is Some')
    ck.rule('R09.4', 'STARK transcript: completeness, ordering, prover/verifier/circuit agreement (C04 rules on the STARK functions)')
    ck.rule('R09.5', 'no unpinned zip partner in the STARK verifier closure (FRI caps / batches built from optional proof parts)')
    ck.rule('R09.6', 'caps are chained in oracle order trace -> auxiliary -> quotient')
    consumer_rules(F, ck)
    for spec in STARK_NATIVE:
        E.check('R09.2', spec)
    for fq, core, lk, ctl in VANISH:
        E.check('R09.3', dict(id='vanish.core:' + fq.split('::')[-1], fn=fq, crate='starky', kind='call', callee=core, src=['p:stark', 'p:vars', 'p:consumer'], ctx={'uncond': True, 'noloop': True}, why='the STARK\'s own constraints are always evaluated'))
        E.check('R09.3', dict(id='vanish.lookups:' + fq.split('::')[-1], fn=fq, crate='starky', kind='call', callee=lk, src=['p:stark', 'p:vars', 'p:lookup_vars', 'p:consumer'] + (['p:lookups'] if 'circuit' not in fq else []), ctx={'only_cond': ['lookup_vars', 'stark']}, why='lookup constraints evaluated when lookup data is present (and on nothing else)'))
        E.check('R09.3', dict(id='vanish.ctl:' + fq.split('::')[-1], fn=fq, crate='starky', kind='call', callee=ctl, src=['p:vars', 'p:ctl_vars', 'p:consumer', 'c:constraint_degree'], ctx={'only_cond': ['ctl_vars', 'stark']}, why='CTL constraints evaluated when CTL data is present (and on nothing else: not in an else-branch of the lookup block)'))
    # R09.4 via the C04 machinery restricted to STARK
    sub = _Sub(ck, 'R09.4')
    stark_transcript(F, sub)
    # R09.5
    e = F.one('starky::verifier::verify_stark_proof_with_challenges', crate='starky')
    if e is None:
        ck.ob('R09.5', 'anchor', False, 'ANCHOR-MISSING')
    else:
        n = zips.check_zips(ck, 'R09.5', F, e, {'stark', 'config', 'challenges', 'ctl_vars', 'public_inputs'}, ['starky/src/verifier.rs', 'fri/verifier.rs', 'fri/validate_shape.rs'], depth=5, label='stark')
        ck.floor('R09.5', 'zip operands in the STARK verifier closure', n, 4)
    # R09.9 every length / presence of the STARK proof is pinned before use
    ck.rule('R09.9', 'every Vec length, cap height and Option presence in the STARK proof type is pinned by an equality guard that must hold (a disjunct another disjunct can satisfy does not count)')
    pins.check(F, ck, 'R09.9', labels={'stark'}, floor=10)
    ck.rule('R09.10', 'prover, verifier and in-circuit verifier build the simulated opening set with the same per-challenge count (as a function of T and P)')
    simulation_siblings(F, ck, 'R09.10')
    # R09.11 / R09.12
    recombination_base(F, ck, 'R09.11', [('starky::verifier::verify_stark_proof_with_challenges', 'starky'), ('starky::recursive_verifier::verify_stark_proof_with_challenges_circuit', 'starky')])
    degree_bound(F, ck)
    ck.rule('R09.13', 'in the STARK prover\'s quotient computation the next-row offset (in the quotient coset) times the step used to read committed oracles is exactly 1 << rate_bits (exponents added as polynomials)')
    from . import stride
    ck.floor('R09.13', 'next-row index sites in compute_quotient_polys', stride.check(F, ck, 'R09.13', 'compute_quotient_polys', 'starky'), 1)
    # R09.6 cap order (native and circuit)
    for fq in ('starky::verifier::verify_stark_proof_with_challenges', 'starky::recursive_verifier::verify_stark_proof_with_challenges_circuit'):
        fn = F.one(fq, crate='starky')
        if fn is None:
            ck.ob('R09.6', 'anchor:' + fq, False, 'ANCHOR-MISSING ' + fq)
            continue
        order = []
        for n in walk(fn.body):
            if n.get('k') == 'Let' and n['p'].get('k') == 'Bind' and n['p']['n'] == 'merkle_caps' and 'i' in n:
                for x in walk(n['i']):
                    if x.get('k') == 'Field' and x['n'].endswith('_cap'):
                        order.append(x['n'])
        want = ['trace_cap', 'auxiliary_polys_cap', 'quotient_polys_cap']
        ck.ob('R09.6', 'cap-order:' + fn.name, order == want, 'caps chained as %s' % want if order == want else 'caps handed to FRI are %s; the FRI instance orders oracles as %s' % (order, want), '%s:%d' % (fn.file, fn.line))
    # R09.7 quotient presence (interval abstract interpretation)
    ck.rule('R09.7', 'a STARK with constraints (constraint_degree >= 1) has at least one quotient chunk per challenge; one without has none (interval analysis of Stark::quotient_degree_factor)')
    qf = [f for f in F.find('Stark::quotient_degree_factor', crate='starky')]
    if len(qf) != 1:
        ck.ob('R09.7', 'anchor', False, 'ANCHOR-MISSING Stark::quotient_degree_factor')
    else:
        try:
            r1 = interval.ev(qf[0].body, {}, {'constraint_degree': (1, interval.INF)})
            r0 = interval.ev(qf[0].body, {}, {'constraint_degree': (0, 0)})
            ok = r1[0] >= 1 and r0 == (0, 0)
            ck.ob('R09.7', 'quotient.presence', ok, 'degree >= 1 -> factor in [%s, %s]; degree 0 -> %s' % (r1[0], r1[1], r0) if ok else
                  'Stark::quotient_degree_factor can return %s for a STARK with constraint degree >= 1 (and %s for degree 0): such a STARK gets no quotient polynomial and the verifier\'s quotient identity loop is empty - every trace is accepted' % (r1[0], r0), '%s:%d' % (qf[0].file, qf[0].line))
        except interval.Unknown as e:
            ck.observe('R09.7 not applicable: quotient_degree_factor uses a construct outside the interval evaluator (%s)' % e)
    E.check('R09.7', dict(id='quotient.count', fn='Stark::num_quotient_polys', crate='starky', kind='ret', src=['c:quotient_degree_factor', 'F:StarkConfig.num_challenges'], why='number of quotient polynomials = factor * challenges'))
    ck.decided += ['row filters bound to the right constraint classes', 'every STARK verifier check present, unconditional and fed by the proof', 'STARK transcript complete, ordered and agreed', 'caps/batches pinned']
    ck.undecided += ['that accepted traces satisfy the constraints (soundness algebra)', 'prover completeness', 'the quotient-degree arithmetic (numeric)']
    return 'Decides structural necessary conditions of C09 on the STARK verifier, consumers, vanishing evaluators and transcript. Numeric/algebraic clauses are not decided.'


class _Sub:
    """records C04-style obligations under another rule id"""
    def __init__(self, ck, rule):
        self.ck, self.rid = ck, rule

    def ob(self, rule, key, ok, detail='', loc=None):
        return self.ck.ob(self.rid, rule + ':' + key, ok, detail, loc)

    def floor(self, rule, what, count, floor):
        return self.ck.floor(self.rid, what, count, floor)

    def rule(self, *a):
        pass

    def observe(self, *a):
        return self.ck.observe(*a)

    @property
    def notes(self):
        return self.ck.notes


def stark_transcript(F, ck):
    """C04 completeness / ordering / agreement restricted to the STARK protocol"""
    saved = dict(c04.SIDES)
    try:
        c04.SIDES = {'stark': saved['stark']}
        c04.run_protocols(F, ck)
    finally:
        c04.SIDES = saved


def simulation_siblings(F, ck, rule):
    """the zero-knowledge-free 'simulated opening set' that prover, verifier and in-circuit verifier absorb before sampling zeta
    is built three times; the per-challenge count must be the same function of (T = total evaluations, P = powers per challenge)"""
    from . import poly
    from .facts import walk
    E = poly.Ev(F)
    found = {}
    for fn in F.fns.values():
        if fn.crate != 'starky' or fn.body is None:
            continue
        for n in walk(fn.body):
            if n.get('k') == 'MCall' and n['n'] == 'get_n_extension_challenges' and n.get('a'):
                cnt = n['a'][-1]
                if cnt.get('k') == 'MCall' and cnt['n'] == 'div_ceil' and cnt['r'].get('k') == 'Local' and cnt['a'] and cnt['a'][0].get('k') == 'Local':
                    found[fn.qual] = (fn, cnt['r'], cnt['a'][0])
    ck.floor(rule, 'builders of the simulated opening set (prover, verifier, circuit)', len(found), 3)
    polys = {}
    for q, (fn, tl, pl) in sorted(found.items()):
        env = {tl['id']: poly.sym('T'), pl['id']: poly.sym('P')}
        # lets of the function body that depend only on T and P
        for s in walk(fn.body):
            if s.get('k') == 'Let' and 'i' in s and s['p'].get('k') == 'Bind' and s['p']['id'] not in env:
                try:
                    v = E.ev(fn, s['i'], env, 2)
                    if all(all(x in ('T', 'P') or x.startswith(('min(', 'max(')) for x in m) for m in v):
                        env[s['p']['id']] = v
                except poly.Unknown:
                    pass
        counts = []
        for n in walk(fn.body):
            node = None
            if n.get('k') == 'MCall' and n['n'] == 'take' and n.get('a'):
                node, adj = n['a'][0], 0
            elif n.get('k') == 'For' and n['it'].get('k') == 'Struct' and 'Range' in (n['it'].get('d') or ''):
                f = dict(n['it']['f'])
                if 'end' in f and 'start' in f:
                    node, adj = f['end'], None
                    try:
                        st = E.ev(fn, f['start'], env, 2)
                    except poly.Unknown:
                        continue
            if node is None:
                continue
            try:
                v = E.ev(fn, node, env, 2)
            except poly.Unknown:
                continue
            if not any(any(x.startswith('min(') for x in m) for m in v):
                continue
            if adj is None:
                # `powers` starts with one element and the loop runs start..end: elements = 1 + end - start
                v = poly.add(poly.add(v, st, -1), poly.const(1))
            counts.append(poly.show(v))
        polys[q] = sorted(set(counts))
    vals = {tuple(v) for v in polys.values()}
    ok = len(vals) == 1 and all(len(v) == 1 for v in vals)
    ck.ob(rule, 'simulated-openings:per-challenge-count', ok, 'all builders take %s powers per simulating challenge' % (list(vals)[0][0] if ok else '?') if ok else
          'SIBLING DISAGREEMENT: the simulated opening set is built with different per-challenge counts: %s - prover and verifier then absorb different dummy openings, derive different zeta and every honest proof is rejected '
          '(or the vectors are sliced out of range)' % '; '.join('%s: %s' % (k, v) for k, v in sorted(polys.items())))


def recombination_base(F, ck, rule, sites):
    """the quotient chunks t_0, t_1, .. are recombined as sum t_i(zeta) * (zeta^n)^i: the base handed to reduce_with_powers /
    ReducingFactorTarget::new is the POWER zeta^n itself - not Z_H(zeta) = zeta^n - 1, which has the same type"""
    from . import defrender
    from .facts import walk, callee, parse_path
    ck.rule(rule, 'quotient chunks are recombined with base zeta^n: the base argument of reduce_with_powers / ReducingFactorTarget::new resolves to an exponentiation call, not to a difference')
    n = 0
    for q, crate in sites:
        fn = F.one(q, crate=crate)
        if fn is None:
            ck.ob(rule, 'anchor:' + q.split('::')[-1], False, 'ANCHOR-MISSING ' + q)
            continue
        D = defrender.Defs(fn)
        for x in walk(fn.body):
            if x.get('k') not in ('Call', 'MCall'):
                continue
            nm = parse_path(callee(x) or '')[1] or x.get('n')
            arg = None
            if nm == 'reduce_with_powers' and len(x.get('a', [])) == 2:
                arg = x['a'][1]
            elif nm == 'new' and 'ReducingFactorTarget' in (callee(x) or '') and x.get('a'):
                arg = x['a'][0]
            if arg is None:
                continue
            node = arg
            for _ in range(4):
                while node.get('k') in ('Ref', 'Cast', 'Un'):
                    node = node['e']
                if node.get('k') == 'Local':
                    d = D.defs.get(node['id'])
                    if d and d[0] == 'let':
                        node = d[1]
                        continue
                break
            nm2 = (parse_path(callee(node) or '')[1] or node.get('n') or '') if node.get('k') in ('Call', 'MCall') else ''
            ok = nm2.startswith('exp')
            n += 1
            ck.ob(rule, 'base:%s:%s' % (fn.name, nm), ok, 'base is %s(..)' % nm2 if ok else
                  'WRONG RECOMBINATION BASE in %s: %s is given a base that is not an exponentiation of zeta (it resolves to a %s%s): with more than one quotient chunk per challenge the recombined t(zeta) is wrong and honest proofs are rejected '
                  '(or a prover can exploit the mismatch)' % (fn.qual, nm, node.get('k'), (' ' + node.get('op')) if node.get('op') else (' ' + nm2 if nm2 else '')), x.get('s'))
    ck.floor(rule, 'recombination sites', n, len(sites))


def degree_bound(F, ck):
    """the prover accepts constraint degrees up to blowup + 1 (the quotient then has degree factor <= blowup)"""
    from . import poly
    from .facts import walk
    ck.rule('R09.12', 'prove_with_commitment asserts constraint_degree <= 2^rate_bits + 1 (normalised): a tighter bound rejects STARKs the verifier and the quotient computation support, a looser one lets the quotient alias on the LDE domain')
    fn = F.one('starky::prover::prove_with_commitment', crate='starky')
    if fn is None:
        ck.ob('R09.12', 'anchor', False, 'ANCHOR-MISSING prove_with_commitment')
        return
    E = poly.Ev(F)
    env = {}
    for s_ in walk(fn.body):
        if s_.get('k') == 'Let' and 'i' in s_ and s_['p'].get('k') == 'Bind' and s_['p']['id'] not in env:
            try:
                env[s_['p']['id']] = E.ev(fn, s_['i'], env, 2)
            except poly.Unknown as ex:
                env[s_['p']['id']] = ex
    found = None
    fl = flow.Flow(F, fn)
    for e in fl.events:
        if e.kind != 'assert':
            continue
        c = e.node.get('c') if e.node.get('k') == 'If' else None
        if c is None:
            continue
        neg = True          # assert!(cond) expands to `if !cond { panic }`
        while c.get('k') == 'Un' and c.get('op') == 'Not':
            neg = not neg
            c = c['e']
        if c.get('k') != 'Bin' or c['op'] not in ('Lt', 'Le', 'Gt', 'Ge'):
            continue
        try:
            l, r = E.ev(fn, c['l'], env, 2), E.ev(fn, c['r'], env, 2)
        except poly.Unknown:
            continue
        syms = {x for m in list(l) + list(r) for x in m}
        if not any('constraint_degree' in x for x in syms):
            continue
        op = c['op']
        if neg:      # condition that must hold is the un-negated one: `if !(a <= b) panic` -> a <= b must hold
            pass
        d = poly.add(l, r, -1)
        if op in ('Gt', 'Ge'):
            d = poly.add({}, d, -1)
            op = 'Lt' if op == 'Gt' else 'Le'
        if op == 'Le':
            d = poly.add(d, poly.const(1), -1)
        found = (d, e)
    if found is None:
        ck.ob('R09.12', 'degree-bound', False, 'prove_with_commitment no longer asserts a bound on constraint_degree', '%s:%d' % (fn.file, fn.line))
        return
    d, e = found
    degs = [m for m in d if any('constraint_degree' in x for x in m)]
    pows = [m for m in d if any(x.startswith('2^(') for x in m)]
    ok = len(degs) == 1 and d[degs[0]] == 1 and len(pows) == 1 and d[pows[0]] == -1 and d.get((), 0) == -2 and len(d) == 3
    ck.ob('R09.12', 'degree-bound', ok, 'constraint_degree - 2^rate_bits - 2 < 0' if ok else
          'prove_with_commitment requires %s < 0 instead of constraint_degree - 2^rate_bits - 2 < 0 (i.e. degree <= blowup + 1)' % poly.show(d), e.loc())
