"""C20 - conditional and cyclic recursion enforce exactly the selected verification (structural clauses).

R20.1 symmetric selection: every select_* building an aggregate takes each field from the SAME field of both inputs, in (b, x0, x1) order
R20.2 consistent branches in conditionally_verify_proof / conditionally_verify_cyclic_proof
R20.3 cyclic binding: every field of the verifier data parsed from the inner public inputs is connected to the circuit's own verifier-data
      public inputs; registration, parsing (native and target) use the same layout; the out-of-circuit check compares every field
R20.4 dummy circuits assert the requested common data; dummy_proof sets every public input
"""
from . import flow, ob
from .facts import parse_path, walk, ty_adt

RENAME = {}


def roots_fields(v, root):
    """set of first-level field chains under p:<root> in value v ('' when the root itself flows)"""
    out = set()
    for a in flow.flat(v):
        if a.startswith('p:'):
            body = a[2:]
            seg = body.split('.')
            r = seg[0].replace('[]', '')
            if r == root:
                out.add('.'.join(s.replace('[]', '') for s in seg[1:]))
    return out


def run(F, ck, tier):
    E = ob.Engine(F, ck)
    ck.rule('R20.1', 'symmetric selection: each select call receives (condition, x0-part, x1-part) with the same field path on both sides; each field of a selected aggregate comes from that field of both inputs')
    ck.rule('R20.2', 'conditional verification selects proof and verifier data with the same condition and order and verifies exactly the selection')
    ck.rule('R20.3', 'cyclic recursion binds the inner proof\'s embedded verifier data to the circuit\'s own, field by field, with one layout')
    ck.rule('R20.4', 'dummy circuit equals the requested common data; dummy proof assigns every public input')
    sel = [f for f in F.fns.values() if f.crate == 'plonky2' and f.name.startswith('select_') and f.file.endswith('recursion/conditional_recursive_verifier.rs')]
    ck.floor('R20.1', 'select_* functions of the conditional verifier', len(sel), 12)
    for fn in sorted(sel, key=lambda f: f.name):
        names = []
        for p in fn.params:
            names.append(p.get('n') if p.get('k') == 'Bind' else None)
        if len(names) != 4:
            ck.ob('R20.1', 'shape:' + fn.name, False, '%s does not have the (self, b, x0, x1) shape any more' % fn.qual, '%s:%d' % (fn.file, fn.line))
            continue
        _, b, x0, x1 = names
        fl = flow.Flow(F, fn, idx_value=False)
        ncalls = 0
        for e in fl.events:
            if e.kind != 'call' or not e.name or not e.name.startswith('select') or len(e.args) != 3:
                continue
            ncalls += 1
            a0, a1, a2 = e.args
            f1_0, f1_1 = roots_fields(a1, x0), roots_fields(a1, x1)
            f2_0, f2_1 = roots_fields(a2, x0), roots_fields(a2, x1)
            okb = flow.has_param(a0, b)
            ok = okb and f1_0 and not f1_1 and f2_1 and not f2_0 and f1_0 == f2_1
            why = []
            if not okb:
                why.append('condition argument is not %s' % b)
            if f1_1 or not f1_0:
                why.append('first branch argument is not taken from %s only' % x0)
            if f2_0 or not f2_1:
                why.append('second branch argument is not taken from %s only' % x1)
            if f1_0 and f2_1 and f1_0 != f2_1:
                why.append('branches select different parts: %s.%s vs %s.%s' % (x0, sorted(f1_0), x1, sorted(f2_1)))
            key = 'sym:%s:%s:%s' % (fn.name, e.name, '+'.join(sorted(f1_0 | f2_1 | f1_1 | f2_0)) or '-')
            ck.ob('R20.1', key, ok, 'symmetric' if ok else 'ASYMMETRIC SELECTION in %s: %s - the single verification would see a mixture of the two proofs' % (fn.qual, '; '.join(why)), e.loc())
        ck.ob('R20.1', 'nonempty:' + fn.name, ncalls > 0, '%d select calls' % ncalls if ncalls else '%s no longer delegates to element-wise select calls' % fn.qual, '%s:%d' % (fn.file, fn.line))
        # result literal fields come from the same-named field
        for e in fl.events:
            if e.kind == 'struct' and not e.stack and e.val and not str(e.extra[0]).startswith('Range'):   # `a..b` is a Range literal, not a selected aggregate
                for f, v in e.val.items():
                    g0 = {p for p in roots_fields(v, x0) if p}
                    g1 = {p for p in roots_fields(v, x1) if p}
                    if not g0 and not g1:
                        continue     # built from locals that are themselves results of select calls (checked above)
                    ok = bool(g0) and bool(g1) and all(f in p.split('.') for p in g0 | g1) and g0 == g1
                    ck.ob('R20.1', 'field:%s:%s.%s' % (fn.name, e.extra[0], f), ok, 'field taken from the same field of both inputs' if ok else
                          'field %s of the selected %s is built from %s.%s and %s.%s' % (f, e.extra[0], x0, sorted(g0), x1, sorted(g1)), e.loc())
    # selected struct literal covers all fields (compiler enforces; recorded as evidence of the type family)
    # ---------------------------------------------------------------- R20.2
    E.check('R20.2', dict(id='cond.proof', fn='CircuitBuilder::conditionally_verify_proof', crate='plonky2', kind='call', callee='select_proof_with_pis',
                          src=['p:condition', 'p:proof_with_pis0', 'p:proof_with_pis1'], ctx={'uncond': True}, why='proof selected by the condition'))
    E.check('R20.2', dict(id='cond.vd', fn='CircuitBuilder::conditionally_verify_proof', crate='plonky2', kind='call', callee='select_verifier_data',
                          src=['p:condition', 'p:inner_verifier_data0', 'p:inner_verifier_data1'], ctx={'uncond': True}, why='verifier data selected by the same condition'))
    E.check('R20.2', dict(id='cond.verify', fn='CircuitBuilder::conditionally_verify_proof', crate='plonky2', kind='call', callee='verify_proof',
                          src=['c:select_proof_with_pis', 'c:select_verifier_data', 'p:inner_common_data'], ctx={'uncond': True}, why='exactly the selection is verified'))
    cv = F.one('CircuitBuilder::conditionally_verify_proof', crate='plonky2')
    if cv is not None:
        fl = flow.Flow(F, cv)
        for e in fl.events:
            if e.kind == 'call' and e.name in ('select_proof_with_pis', 'select_verifier_data') and len(e.args) == 3:
                o0 = sorted(a[2:] for a in flow.flat(e.args[1]) if a.startswith('p:'))
                o1 = sorted(a[2:] for a in flow.flat(e.args[2]) if a.startswith('p:'))
                ok = all(x.endswith('0') for x in o0) and all(x.endswith('1') for x in o1) and o0 and o1
                ck.ob('R20.2', 'cond.order:' + e.name, ok, 'branch 0 / branch 1 passed in order' if ok else 'selection arguments are %s / %s: proof and verifier data may be paired across branches' % (o0, o1), e.loc())
    E.check('R20.2', dict(id='cyclic.verify', fn='CircuitBuilder::conditionally_verify_cyclic_proof', crate='plonky2', kind='call', callee='conditionally_verify_proof',
                          src=['p:condition', 'p:cyclic_proof_with_pis', 'F:CircuitBuilder.verifier_data_public_input', 'p:other_proof_with_pis', 'p:other_verifier_data', 'p:common_data'],
                          ctx={'uncond': True}, why='cyclic proof paired with the circuit\'s own (public-input) verifier data, the other proof with other_verifier_data'))
    cc = F.one('CircuitBuilder::conditionally_verify_cyclic_proof', crate='plonky2')
    if cc is not None:
        fl = flow.Flow(F, cc)
        for e in fl.events:
            if e.kind == 'call' and e.name == 'conditionally_verify_proof' and len(e.args) == 6:
                ok = flow.has_param(e.args[1], 'cyclic_proof_with_pis') and flow.has_field(e.args[2], 'verifier_data_public_input') and not flow.has_param(e.args[2], 'other_verifier_data') \
                    and flow.has_param(e.args[3], 'other_proof_with_pis') and flow.has_param(e.args[4], 'other_verifier_data') and not flow.has_field(e.args[4], 'verifier_data_public_input')
                ck.ob('R20.2', 'cyclic.pairing', ok, 'pairing (cyclic proof, own data) / (other proof, other data)' if ok else 'conditionally_verify_cyclic_proof pairs proofs and verifier data across branches', e.loc())
    # ---------------------------------------------------------------- R20.3
    vfields = F.adt_fields('VerifierCircuitTarget', crate='plonky2') or []
    ck.floor('R20.3', 'fields of VerifierCircuitTarget', len(vfields), 2)
    sink_of = {'circuit_digest': 'connect_hashes', 'constants_sigmas_cap': 'connect_merkle_caps'}
    for f, t in vfields:
        sinks = [sink_of[f]] if f in sink_of else ['connect_hashes', 'connect_merkle_caps', 'connect', 'connect_verifier_data']
        E.check('R20.3', dict(id='cyclic.connect:' + f, fn='CircuitBuilder::conditionally_verify_cyclic_proof', crate='plonky2', kind='sink', callee=sinks + ['connect_verifier_data'],
                              src=['c:from_slice', 'F:ProofWithPublicInputsTarget.public_inputs', 'F:VerifierCircuitTarget.' + f, 'F:CircuitBuilder.verifier_data_public_input'],
                              ctx={'uncond': True}, why='inner proof\'s embedded %s connected to this circuit\'s own' % f))
        E.check('R20.3', dict(id='cyclic.register:' + f, fn='CircuitBuilder::add_verifier_data_public_inputs', crate='plonky2', kind='call', callee='register_public_inputs',
                              src=['F:VerifierCircuitTarget.' + f, 'c:add_virtual_verifier_data'], why='%s registered as public input' % f))
    # ... and unconditionally in the data-flow sense too: the partner of the embedded verifier data is the circuit's own data itself,
    # not a selection that falls back to the embedded data when the condition is off (which would make the equation x == x)
    cy = F.one('CircuitBuilder::conditionally_verify_cyclic_proof', crate='plonky2')
    if cy is not None:
        flc = flow.Flow(F, cy)
        nconn = 0
        for e in flc.events:
            if e.kind == 'call' and e.name in ('connect_hashes', 'connect_merkle_caps', 'connect_verifier_data'):
                nconn += 1
                d = set()
                for a in e.args:
                    d |= set(flow.flat(a))
                sel = sorted(x for x in d if x == 'p:condition' or (x.startswith('c:') and 'select' in x.split('::')[-1]))
                ck.ob('R20.3', 'cyclic.connect-direct:%s#%d' % (e.name, nconn), not sel, 'the equality does not depend on the recursion condition' if not sel else
                      'CONDITIONAL KEY BINDING: in conditionally_verify_cyclic_proof the %s that ties the inner proof\'s embedded verifier data to this circuit\'s own depends on %s: '
                      'when the condition is off the embedded data is compared with itself, so a chain can be started from a proof of any circuit and continued under this circuit\'s key' % (e.name, ', '.join(sel)), e.loc())
        ck.floor('R20.3', 'verifier-data equalities in conditionally_verify_cyclic_proof', nconn, 2)
    # ---------------------------------------------------------------- R20.7 the dummy circuit reproduces every construction input of the shape
    ck.rule('R20.7', 'dummy_circuit, which must rebuild a circuit whose CommonCircuitData equals the given one (it asserts so), reads every field of it that is an INPUT of circuit construction '
                     '(config, gates, num_public_inputs, luts): a field it never reads keeps its default in the rebuilt circuit, so the closing assertion fails for every shape where that field is not the default')
    dc = [f for f in F.find('recursion::dummy_circuit::dummy_circuit', crate='plonky2') if f.body is not None] or \
        [f for f in F.fns.values() if f.crate == 'plonky2' and f.name == 'dummy_circuit' and f.body is not None and '::' not in f.qual]
    if len(dc) != 1:
        ck.ob('R20.7', 'anchor', False, 'ANCHOR-MISSING recursion::dummy_circuit::dummy_circuit (%d)' % len(dc))
    else:
        read = set()
        for x in walk(dc[0].body):
            if x.get('k') == 'Field':
                e = x['e']
                while e.get('k') in ('Un', 'Ref'):
                    e = e['e']
                if e.get('k') == 'Local' and 'CommonCircuitData' in (dc[0].ty(e) or ''):
                    read.add(x['n'])
        have = {n for n, t in (F.adt_fields('CommonCircuitData', crate='plonky2') or [])}
        for fld in ('config', 'gates', 'num_public_inputs', 'luts'):
            if fld not in have:
                ck.ob('R20.7', 'dummy.reads:' + fld, False, 'ANCHOR-MISSING CommonCircuitData.%s' % fld)
                continue
            okr = fld in read
            ck.ob('R20.7', 'dummy.reads:' + fld, okr, 'read while rebuilding the circuit' if okr else
                  'DUMMY CIRCUIT IGNORES A CONSTRUCTION INPUT: dummy_circuit never reads common_data.%s, so the circuit it builds has the default there and its closing assert_eq!(&circuit.common, common_data) '
                  'panics for every shape with a non-default %s: no dummy proof can be produced for such shapes (dummy_proof_and_vk, conditionally_verify_proof_or_dummy, cyclic base cases)' % (fld, fld),
                  '%s:%d' % (dc[0].file, dc[0].line))
    vofields = F.adt_fields('VerifierOnlyCircuitData', crate='plonky2') or []
    for f, t in vofields:
        E.check('R20.3', dict(id='cyclic.check:' + f, fn='recursion::cyclic_recursion::check_cyclic_proof_verifier_data', kind='guard',
                              src=['F:VerifierOnlyCircuitData.' + f, 'c:from_slice', 'F:ProofWithPublicInputs.public_inputs', 'p:verifier_data'],
                              ctx={'uncond': True, 'loop_over_own': ['F:VerifierOnlyCircuitData.' + f]}, why='out-of-circuit comparison of embedded and actual %s (whole value: not a loop over a range taken from elsewhere)' % f))
    # layout agreement: registration order digest -> cap; both from_slice parse cap from the tail and digest before it
    reg = F.one('CircuitBuilder::add_verifier_data_public_inputs', crate='plonky2')
    if reg is not None:
        order = []
        fl = flow.Flow(F, reg)
        for e in fl.events:
            if e.kind == 'call' and e.name == 'register_public_inputs':
                for f, _ in vfields:
                    if flow.has_field(e.deps(), f) and f not in order:
                        order.append(f)
        ck.ob('R20.3', 'layout.register', order == ['circuit_digest', 'constants_sigmas_cap'], 'registered as [digest, cap]' if order == ['circuit_digest', 'constants_sigmas_cap'] else
              'verifier-data public inputs are registered in order %s but both from_slice parsers expect [..., circuit_digest, constants_sigmas_cap]' % order, '%s:%d' % (reg.file, reg.line))
    for owner in ('VerifierCircuitTarget', 'VerifierOnlyCircuitData'):
        fs = [f for f in F.find('%s::from_slice' % owner, crate='plonky2')]
        if len(fs) != 1:
            ck.ob('R20.3', 'anchor:from_slice:' + owner, False, 'ANCHOR-MISSING %s::from_slice' % owner)
            continue
        fl = flow.Flow(F, fs[0], lits=True)
        st = [e for e in fl.events if e.kind == 'struct' and e.extra and e.extra[0] == owner]
        ok = False
        detail = 'result literal not found'
        if st:
            v = st[-1].val
            okd = flow.has_param(v.get('circuit_digest'), 'slice') and 'n:4' in flow.flat(v.get('circuit_digest'))
            okc = flow.has_param(v.get('constants_sigmas_cap'), 'slice')
            g = any(e.kind == 'guard' and flow.has_call(e.val, 'len') and flow.has_param(e.val, 'slice') for e in fl.events)
            ok = okd and okc and g
            detail = 'digest from slice: %s, cap from slice: %s, length guard: %s' % (okd, okc, g)
        ck.ob('R20.3', 'layout.parse:' + owner, ok, detail, '%s:%d' % (fs[0].file, fs[0].line))
    # ---------------------------------------------------------------- R20.4
    E.check('R20.4', dict(id='dummy.circuit.eq', fn='recursion::dummy_circuit::dummy_circuit', kind='assert_or_guard', src=['p:common_data', 'F:CircuitData.common', 'c:build'],
                          why='the built dummy circuit equals the requested common data'))
    E.check('R20.4', dict(id='dummy.proof.pis', fn='recursion::dummy_circuit::dummy_proof', kind='call', callee='set_target',
                          src=['F:ProverOnlyCircuitData.public_inputs', 'p:nonzero_public_inputs'], ctx={'loop': ['F:CommonCircuitData.num_public_inputs'], 'uncond': True}, whole=True,
                          why='every public input of the dummy proof is assigned'))
    # R20.6 conditional / cyclic / dummy routines are parameterised by the INNER circuit (shared with R06.6)
    ck.rule('R20.6', 'the conditional, cyclic and dummy-proof routines take every configuration (and every size derived from one) from the inner circuit\'s common data, never from the outer builder\'s own configuration')
    from . import c06, c11
    c06.inner_config_source(F, c11._Rename(ck, 'R20.6'))
    ck.decided += ['selection symmetric in every field', 'same condition/order for proof and verifier data', 'cyclic verifier data connected, registered, parsed and compared field by field', 'dummy circuit asserts common data']
    ck.undecided += ['validity of dummy proofs and of each chain link (behavioural)', 'acceptance iff selected proof valid']
    return 'Decides structural necessary conditions of C20: field-wise symmetric selection, consistent branches, cyclic verifier-data binding with one layout, dummy circuit assertion. Behavioural clauses are not decided.'
