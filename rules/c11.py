"""C11 - the in-circuit STARK verifier agrees with the native STARK verifier (structural clauses).

R11.1 twin table: each obligation of the native STARK verifier has an in-circuit twin fed by the corresponding targets
R11.2 in-circuit STARK transcript aligns with the native one and is complete / ordered (C04 rules on get_challenges_target)
R11.3 witness assignment covers StarkProofTarget / StarkOpeningSetTarget (incl. degree_bits)
R11.4 the variable-degree FRI circuit carries every FRI obligation (shared table with C06), tied to the degree selector
R11.5 native / circuit lookup and CTL evaluators agree (shared with C10)
"""
from . import ob, flow, tables_fri, c04, c09, c10, transcript, skeleton
from .facts import parse_path

SET_SINKS = {'set_target', 'set_extension_target', 'set_extension_targets', 'set_hash_target', 'set_cap_target', 'set_bool_target', 'set_fri_openings'}

CIRCUIT = [
    dict(id='stark.pis_len.circuit', fn='starky::recursive_verifier::verify_stark_proof_circuit', crate='starky', kind='assert_or_guard',
         src=['F:StarkProofWithPublicInputsTarget.public_inputs', 'c:len', 'd:PUBLIC_INPUTS'], why='number of public-input targets matches the STARK (builder-side assertion)'),
    dict(id='stark.entry.circuit', fn='starky::recursive_verifier::verify_stark_proof_circuit', crate='starky', kind='call', callee='verify_stark_proof_with_challenges_circuit',
         src=['p:stark', 'F:StarkProofWithPublicInputsTarget.proof', 'F:StarkProofWithPublicInputsTarget.public_inputs', 'c:get_challenges', 'p:inner_config', 'p:min_degree_bits_to_support', 'c:recover_degree_bits'],
         ctx={'uncond': True}, why='challenges derived from the proof targets, then verification with them'),
    dict(id='stark.lookup_options.circuit', fn='starky::recursive_verifier::verify_stark_proof_with_challenges_circuit', crate='starky', kind='call', callee='check_lookup_options',
         src=['p:stark', 'p:proof', 'p:challenges'], ctx={'uncond': True}, why='optional lookup data present iff the STARK uses lookups'),
    dict(id='stark.vanishing.circuit', fn='starky::recursive_verifier::verify_stark_proof_with_challenges_circuit', crate='starky', kind='call', callee='compute_eval_vanishing_poly_circuit',
         src=['p:stark', 'F:StarkProofTarget.openings', 'p:ctl_vars', 'p:public_inputs', 'F:StarkProofChallengesTarget.stark_alphas', 'F:StarkProofChallengesTarget.stark_zeta',
              'F:StarkProofTarget.degree_bits', 'f:challenges'],
         ctx={'uncond': True}, why='constraints replayed over the opening targets'),
    dict(id='stark.quotient_identity.circuit', fn='starky::recursive_verifier::verify_stark_proof_with_challenges_circuit', crate='starky', kind='sink', callee=['connect_extension'],
         src=['c:compute_eval_vanishing_poly_circuit', 'F:StarkOpeningSetTarget.quotient_polys', 'F:StarkProofChallengesTarget.stark_zeta', 'c:reduce', 'c:quotient_degree_factor', 'F:StarkProofTarget.degree_bits'],
         ctx={'loop': ['F:StarkOpeningSetTarget.quotient_polys']}, whole=True, why='vanishing identity connected per challenge'),
    dict(id='stark.degree_nonzero.circuit', fn='starky::recursive_verifier::verify_stark_proof_with_challenges_circuit', crate='starky', kind='sink', callee=['inverse'],
         src=['F:StarkProofTarget.degree_bits'], ctx={'uncond': True}, why='degree_bits target constrained to be non-zero'),
    dict(id='stark.fri_call.circuit', fn='starky::recursive_verifier::verify_stark_proof_with_challenges_circuit', crate='starky', kind='call', callee='verify_fri_proof',
         src=['F:StarkProofTarget.trace_cap', 'F:StarkProofTarget.auxiliary_polys_cap', 'F:StarkProofTarget.quotient_polys_cap', 'F:StarkProofTarget.openings', 'c:to_fri_openings',
              'F:StarkProofChallengesTarget.fri_challenges', 'c:fri_instance_target', 'F:StarkProofTarget.opening_proof', 'c:fri_params'],
         why='fixed-degree FRI twin'),
    dict(id='stark.fri_call.multi.circuit', fn='starky::recursive_verifier::verify_stark_proof_with_challenges_circuit', crate='starky', kind='call', callee='verify_fri_proof_with_multiple_degree_bits',
         src=['F:StarkProofTarget.trace_cap', 'F:StarkProofTarget.auxiliary_polys_cap', 'F:StarkProofTarget.quotient_polys_cap', 'F:StarkProofTarget.openings', 'c:to_fri_openings',
              'F:StarkProofChallengesTarget.fri_challenges', 'c:fri_instance_target', 'F:StarkProofTarget.opening_proof', 'c:fri_params', 'F:StarkProofTarget.degree_bits', 'c:split_le', 'p:min_degree_bits_to_support'],
         why='variable-degree FRI twin tied to the degree_bits target'),
    dict(id='stark.consumer.circuit', fn='starky::vanishing_poly::compute_eval_vanishing_poly_circuit', crate='starky', kind='call', callee='RecursiveConstraintConsumer::new',
         src=['p:alphas', 'p:zeta', 'c:eval_l_0_and_l_last_circuit'], why='recursive consumer built from alphas, zeta - g^-1, L_0, L_last'),
    dict(id='stark.eval.circuit', fn='starky::vanishing_poly::compute_eval_vanishing_poly_circuit', crate='starky', kind='call', callee='eval_vanishing_poly_circuit',
         src=['p:stark', 'F:StarkOpeningSetTarget.local_values', 'F:StarkOpeningSetTarget.next_values', 'p:public_inputs', 'F:StarkOpeningSetTarget.auxiliary_polys', 'F:StarkOpeningSetTarget.auxiliary_polys_next',
              'p:ctl_vars', 'p:lookup_challenges'], ctx={'uncond': True}, why='all constraint classes evaluated over the opening targets'),
]
TWIN_OF = {'stark.pis_len': 'stark.pis_len.circuit', 'stark.entry': 'stark.entry.circuit', 'stark.vanishing': 'stark.vanishing.circuit', 'stark.quotient_identity': 'stark.quotient_identity.circuit',
           'stark.fri_call': 'stark.fri_call.circuit', 'stark.consumer': 'stark.consumer.circuit'}
NO_TWIN = {'stark.shape': 'target shapes are fixed by add_virtual_stark_proof; check_lookup_options covers the optional parts'}


def run(F, ck, tier):
    E = ob.Engine(F, ck)
    ck.rule('R11.1', 'twin table for the STARK verifier circuit')
    ck.rule('R11.2', 'STARK transcript: native ~ circuit alignment, completeness and ordering of get_challenges_target')
    ck.rule('R11.3', 'set_stark_proof_with_pis_target / set_stark_proof_target write every field of the STARK proof targets')
    ck.rule('R11.4', 'variable-degree FRI circuit obligations (every FRI check, tied to the degree selector)')
    ck.rule('R11.5', 'native / circuit lookup and CTL evaluators agree')
    for spec in CIRCUIT:
        E.check('R11.1', spec)
    ids = {s['id'] for s in CIRCUIT}
    for s in c09.STARK_NATIVE:
        nid = s['id']
        ok = TWIN_OF.get(nid) in ids or nid in NO_TWIN
        ck.ob('R11.1', 'twin-exists:' + nid, ok, 'twin %s' % TWIN_OF.get(nid) if TWIN_OF.get(nid) in ids else ('reviewed: ' + NO_TWIN.get(nid, '')) if ok else 'native STARK obligation %s has no circuit twin' % nid)
    # R11.2
    sub = c09._Sub(ck, 'R11.2')
    c09.stark_transcript(F, sub)
    # R11.3
    cands = F.find('starky::recursive_verifier::set_stark_proof_with_pis_target', crate='starky')
    if len(cands) != 1:
        ck.ob('R11.3', 'anchor', False, 'ANCHOR-MISSING set_stark_proof_with_pis_target')
    else:
        inl = lambda c, d, ev: F.fns.get(c) if (c in F.fns and parse_path(c)[1] not in SET_SINKS | {'set_target_returning_rep', 'set_fri_proof_target'}) else None
        fl = flow.Flow(F, cands[0], inline=inl, depth=4)
        tset = set()
        for e in fl.events:
            if e.kind == 'call' and (e.name in SET_SINKS or e.name == 'set_fri_proof_target') and e.args:
                for a in e.args:
                    tset |= {x for x in flow.flat(a) if x.startswith('F:')}
        n = 0
        for sp in ('starky::proof::StarkProofWithPublicInputsTarget', 'starky::proof::StarkProofTarget', 'starky::proof::StarkOpeningSetTarget',
                   'starky::proof::StarkProofWithPublicInputs', 'starky::proof::StarkProof', 'starky::proof::StarkOpeningSet'):
            a = F.adts.get(sp)
            if a is None:
                ck.ob('R11.3', 'anchor:' + sp, False, 'ANCHOR-MISSING struct ' + sp)
                continue
            short = sp.split('::')[-1]
            for f, t, _ in a['variants'][0]['f']:
                n += 1
                atom = 'F:%s.%s' % (short, f)
                # the value-side degree is passed separately (pis_degree_bits)
                ok = atom in tset
                ck.ob('R11.3', 'assigned:%s.%s' % (short, f), ok, 'covered' if ok else 'field %s.%s is never %s by set_stark_proof_with_pis_target: the in-circuit STARK proof is not fully populated from the native proof' % (short, f, 'written' if short.endswith('Target') else 'read'), '%s:%d' % (cands[0].file, cands[0].line))
        ck.floor('R11.3', 'fields of the STARK proof target/value structs', n, 26)
    # R11.4
    for spec in tables_fri.CIRCUIT_MULTI:
        spec = dict(spec)
        spec['crate'] = 'plonky2'
        E.check('R11.4', spec)
    # R11.5 (shared with C10)
    sub = c09._Sub(ck, 'R11.5')
    c10.run(F, _Proxy(ck, 'R11.5'), 'quick')
    # R11.7 configuration source (shared with R06.6): the FRI / STARK circuit functions take every configuration from their parameters
    ck.rule('R11.7', 'in-circuit STARK / FRI verifier functions pass configuration-typed arguments derived from their own parameters (the inner STARK), never the outer builder\'s configuration')
    from . import c06
    c06.inner_config_source(F, _Rename(ck, 'R11.7'))
    # R11.8 simulated opening set: circuit, native verifier and prover build it alike (shared with R09.10)
    ck.rule('R11.8', 'the in-circuit builder of the simulated opening set takes the same number of powers per simulating challenge as the native verifier and the prover')
    c09.simulation_siblings(F, ck, 'R11.8')
    # R11.9 (shared with R10.8)
    c10.default_targets(F, ck, 'R11.9')
    # R11.10 the two in-circuit computations of the trace-domain quantities use the same bit widths
    ck.rule('R11.10', 'compute_eval_vanishing_poly_circuit and verify_stark_proof_with_challenges_circuit derive the trace length, its bits and the subgroup generator with the same bit widths (arguments of exp / split_le as polynomials)')
    from . import poly as _poly
    from .facts import walk as _walk, callee as _callee, parse_path as _pp
    widths = {}
    for q in ('starky::vanishing_poly::compute_eval_vanishing_poly_circuit', 'starky::recursive_verifier::verify_stark_proof_with_challenges_circuit'):
        fnq = F.one(q, crate='starky')
        if fnq is None:
            ck.ob('R11.10', 'anchor:' + q.split('::')[-1], False, 'ANCHOR-MISSING ' + q)
            continue
        E_ = _poly.Ev(F)
        env_ = {}
        from .facts import pat_binds as _pb
        for p_ in fnq.params:
            for b_ in _pb(p_):
                if (fnq.types[b_['t']] if b_.get('t') is not None else '') == 'usize':
                    env_[b_['id']] = _poly.sym('usize-param')
        for s_ in _walk(fnq.body):
            if s_.get('k') == 'Let' and 'i' in s_ and s_['p'].get('k') == 'Bind' and s_['p']['id'] not in env_:
                try:
                    env_[s_['p']['id']] = E_.ev(fnq, s_['i'], env_, 2)
                except _poly.Unknown as ex_:
                    env_[s_['p']['id']] = ex_
        ws, sp = [], []
        for x in _walk(fnq.body):
            if x.get('k') == 'MCall' and x.get('n') in ('exp', 'split_le') and x.get('a'):
                try:
                    w_ = _poly.show(E_.ev(fnq, x['a'][-1], env_, 2))
                except _poly.Unknown:
                    w_ = '?'
                (ws if x['n'] == 'exp' else sp).append(w_)
        widths[fnq.name] = (sorted(ws), sorted(sp))
    if len(widths) == 2:
        (ea, sa_), (eb, sb_) = list(widths.values())
        common_split = sorted(set(sa_) & set(sb_))
        okw = ea == eb and len(ea) >= 3 and '?' not in ea and any(w in ea for w in common_split)
        ck.ob('R11.10', 'bit-widths', okw, 'same exp widths in both: %s; the degree is split with width %s in both' % (ea, [w for w in common_split if w in ea]) if okw else
              'SIBLING DISAGREEMENT on bit widths: %s - an exponent that does not fit its declared width cannot be range-checked, so valid proofs of some lengths are rejected in-circuit' % widths)
    # R11.6 exact pairing in STARK witness assignment
    ck.rule('R11.6', 'STARK witness assignment pairs targets with proof values exactly (zip_eq / fixed arrays / guard rejecting surplus values) and does not drop an optional part the circuit has no target for')
    from . import assign
    assign.check(F, ck, 'R11.6', entry_q='set_stark_proof_with_pis_target', crate='starky', floor=15)
    ck.decided += ['every native STARK verifier obligation has an in-circuit twin', 'in-circuit STARK transcript = native', 'STARK proof targets fully assigned', 'variable-degree FRI circuit carries all FRI checks', 'lookup/CTL evaluator agreement']
    ck.undecided += ['equality of accepted sets', 'numeric correctness of the degree-selector arithmetic (random access over domain sizes)']
    return 'Decides structural necessary conditions of C11: twin obligations, transcript agreement, witness assignment coverage, variable-degree FRI obligations, evaluator agreement.'


class _Proxy:
    """run another property's rules but record them under one rule id of this check"""
    def __init__(self, ck, rule):
        self.ck, self._rule = ck, rule
        self.decided, self.undecided = [], []

    def rule(self, *a):
        pass

    def ob(self, rule, key, ok, detail='', loc=None):
        return self.ck.ob(self._rule, rule + ':' + key, ok, detail, loc)

    def floor(self, rule, what, count, floor):
        return self.ck.floor(self._rule, what, count, floor)

    def observe(self, t):
        self.ck.observe(t)


class _Rename:
    """re-files obligations of a shared rule under another rule id"""
    def __init__(self, ck, rid):
        self.ck, self.rid = ck, rid

    def ob(self, rule, key, ok, detail='', loc=None):
        return self.ck.ob(self.rid, key, ok, detail, loc)

    def floor(self, rule, what, count, floor):
        return self.ck.floor(self.rid, what, count, floor)

    def rule(self, *a):
        pass

    def observe(self, *a):
        return self.ck.observe(*a)
