"""A8-lite: interval abstract interpretation of small pure integer functions (unsigned, with +inf).
Supports literals, locals, + - * , max/min, checked_sub (Option), saturating_sub, match on Option, if on comparisons
(both arms joined), method calls listed in `env_calls` (their result interval is supplied by the caller)."""
INF = float('inf')


class Unknown(Exception):
    pass


class Opt:
    def __init__(self, some, none):
        self.some = some      # interval or None
        self.none = none      # bool


def join(a, b):
    if a is None:
        return b
    if b is None:
        return a
    return (min(a[0], b[0]), max(a[1], b[1]))


def ev(n, env, calls):
    k = n.get('k')
    if k == 'Lit' and n.get('lk') == 'int':
        v = int(n['v'])
        return (v, v)
    if k == 'Local':
        if n['id'] in env:
            return env[n['id']]
        raise Unknown('local %s' % n['n'])
    if k == 'Block':
        e2 = dict(env)
        for s in n['st']:
            if s.get('k') == 'Let' and s['p'].get('k') == 'Bind' and 'i' in s:
                e2[s['p']['id']] = ev(s['i'], e2, calls)
            else:
                raise Unknown('statement')
        if 'e' not in n:
            raise Unknown('no tail')
        return ev(n['e'], e2, calls)
    if k in ('Cast', 'Ref'):
        return ev(n['e'], env, calls)
    if k == 'Un' and n.get('op') == 'Deref':
        return ev(n['e'], env, calls)
    if k == 'Bin':
        a, b = ev(n['l'], env, calls), ev(n['r'], env, calls)
        op = n['op']
        if op == 'Add':
            return (a[0] + b[0], a[1] + b[1])
        if op == 'Mul':
            return (a[0] * b[0], a[1] * b[1] if INF not in (a[1], b[1]) else (0 if (a[1] == 0 or b[1] == 0) else INF))
        if op == 'Sub':
            return (max(a[0] - b[1], 0) if b[1] != INF else 0, a[1] - b[0] if a[1] != INF else INF)
        raise Unknown('op ' + op)
    if k == 'MCall':
        name = n['n']
        if name in calls and not n['a']:
            return calls[name]
        if name in ('max', 'min') and len(n['a']) == 1:
            a, b = ev(n['r'], env, calls), ev(n['a'][0], env, calls)
            return (max(a[0], b[0]), max(a[1], b[1])) if name == 'max' else (min(a[0], b[0]), min(a[1], b[1]))
        if name == 'saturating_sub':
            a, b = ev(n['r'], env, calls), ev(n['a'][0], env, calls)
            return (max(a[0] - b[1], 0) if b[1] != INF else 0, max(a[1] - b[0], 0) if a[1] != INF else INF)
        if name == 'checked_sub':
            a, b = ev(n['r'], env, calls), ev(n['a'][0], env, calls)
            none = a[0] < b[1]
            some = None
            if a[1] >= b[0]:
                lo = max(a[0] - b[1], 0) if b[1] != INF else 0
                hi = a[1] - b[0] if a[1] != INF else INF
                some = (lo, hi)
            return Opt(some, none)
        if name in ('unwrap_or',):
            o = ev(n['r'], env, calls)
            d = ev(n['a'][0], env, calls)
            if isinstance(o, Opt):
                return join(o.some, d if o.none else None)
        raise Unknown('method ' + name)
    if k == 'Match':
        s = ev(n['e'], env, calls)
        if not isinstance(s, Opt):
            raise Unknown('match on non-option')
        res = None
        for arm in n['arms']:
            p = arm['p']
            if p.get('k') == 'PTupleStruct' and p['d'].endswith('Some') and len(p['a']) == 1:
                if s.some is None:
                    continue
                e2 = dict(env)
                sub = p['a'][0]
                if sub.get('k') == 'Bind':
                    e2[sub['id']] = s.some
                res = join(res, ev(arm['b'], e2, calls))
            elif (p.get('k') == 'PPath' and p['d'].endswith('None')) or p.get('k') == 'Wild':
                if p.get('k') == 'PPath' and not s.none:
                    continue
                res = join(res, ev(arm['b'], env, calls))
            else:
                raise Unknown('pattern')
        if res is None:
            raise Unknown('no arm')
        return res
    if k == 'If':
        a = ev(n['th'], env, calls)
        if 'el' not in n:
            raise Unknown('if without else')
        return join(a, ev(n['el'], env, calls))
    raise Unknown(k)
