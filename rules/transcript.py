"""Fiat-Shamir transcripts as ordered event lists (A1 restricted to challenger calls).

A transcript event is a call of a *primitive* challenger method (one defined in iop/challenger.rs) made while
evaluating a transcript function with every callee that takes / owns a challenger inlined:
   obs  observe_element(s) / observe_hash / observe_cap / observe_extension_element(s)
   sq   get_challenge / get_n_challenges / get_hash / get_extension_challenge / get_n_extension_challenges
Each event carries the dependence set of what is absorbed, the control shape (loop / if nesting inside the
transcript functions) and, for squeezes, a unique tag so later uses can be traced to it.
"""
from . import flow
from .facts import parse_path

OBS = {'observe_element', 'observe_elements', 'observe_hash', 'observe_cap', 'observe_extension_element', 'observe_extension_elements'}
SQ = {'get_challenge', 'get_n_challenges', 'get_hash', 'get_extension_challenge', 'get_n_extension_challenges'}
CH_OWNERS = {'Challenger', 'RecursiveChallenger'}


class TEvent:
    __slots__ = ('kind', 'method', 'deps', 'shape', 'fn', 'loc', 'tag', 'idx', 'ctx', 'stack', 'ev')

    def __repr__(self):
        return '%s %s%s @%s' % (self.kind, self.method, list(self.shape), self.loc)


def takes_challenger(fn):
    if fn.owner in CH_OWNERS:
        return True
    for p in fn.params:
        t = fn.types[p['t']] if p.get('t') is not None else ''
        if 'Challenger<' in t:
            return True
    return False


def extract(F, root, extra_inline=(), depth=9):
    extra_inline = set(extra_inline)

    def inl(c, d, ev):
        fn = F.fns.get(c)
        if fn is None:
            return None
        o, n, _ = parse_path(c)
        if o in CH_OWNERS and (n in OBS or n in SQ or fn.file.endswith('iop/challenger.rs')):
            return None   # primitive
        if n in extra_inline or takes_challenger(fn):
            return fn
        return None

    def tagger(ev, idx):
        o, n, _ = parse_path(ev.callee) if ev.callee else (None, None, None)
        if o in CH_OWNERS and n in SQ:
            return 'sq:%d' % idx
        return None

    fl = flow.Flow(F, root, inline=inl, depth=depth, tagger=tagger)
    out = []
    for i, e in enumerate(fl.events):
        if e.kind != 'call' or not e.callee:
            continue
        o, n, _ = parse_path(e.callee)
        if o not in CH_OWNERS:
            continue
        if n in OBS:
            kind = 'obs'
        elif n in SQ:
            kind = 'sq'
        else:
            continue
        t = TEvent()
        t.kind = kind
        t.method = n
        d = flow.EMPTY
        for a in e.args:
            d = d | flow.flat(a)
        # builder argument of the circuit challenger is not data
        t.deps = d
        t.shape = tuple(fr[0] for fr in e.ctx if fr[0] in ('loop', 'if'))
        t.ctx = e.ctx
        t.fn = e.fn
        t.loc = e.loc()
        t.idx = i
        t.tag = 'sq:%d' % i if kind == 'sq' else None
        t.stack = e.stack
        t.ev = e
        out.append(t)
    return out, fl


def name_squeezes(fl, tevents):
    """map squeeze tag -> set of names: the innermost variable whose initialiser contains the squeeze call, and the struct
    field(s) whose value it ends in (renaming the local is not an alarm: the struct field of the challenges type still names it)"""
    from .facts import walk
    byid = {id(t.ev.node): t.tag for t in tevents if t.kind == 'sq'}
    first = {}
    names = {}

    def scan(node, name):
        for x in walk(node):
            tg = byid.get(id(x))
            if tg and tg not in first:
                first[tg] = name
                names.setdefault(tg, set()).add(name)
    for e in fl.events:
        if e.kind == 'let' and e.extra and 'i' in e.node:
            scan(e.node['i'], e.extra[0])
        elif e.kind == 'struct':
            for f, ex in e.node['f']:
                scan(ex, f)
            # data flow: the newest squeeze tag in a field's value names that squeeze
            for f, v in (e.val or {}).items():
                tags = sorted(int(a[3:]) for a in flow.flat(v) if a.startswith('sq:'))
                if tags:
                    names.setdefault('sq:%d' % tags[-1], set()).add(f)
        elif e.kind == 'assign' and isinstance(e.extra, dict) and e.extra.get('k') == 'Local':
            scan(e.node['r'], e.extra['n'])
    return names
