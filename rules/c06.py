"""C06 - the in-circuit verifier accepts exactly what the native verifier accepts (structural clauses).

R06.1 twin table: every native obligation of the PLONK and FRI verifiers has an in-circuit twin fed by corresponding data
R06.2 in-circuit transcript equals the native transcript (alignment, shared with R04.3) and is complete
R06.3 witness-assignment routines write every field of the proof / verifier-data target structs from the same-named value field
R06.4 native and target opening sets are flattened in the same field order (they are paired positionally)
"""
from . import ob, flow, tables_fri, tables_plonk, tables_merkle, transcript, c04, assign
from .facts import walk, parse_path

SET_SINKS = {'set_target', 'set_extension_target', 'set_extension_targets', 'set_hash_target', 'set_cap_target', 'set_bool_target', 'set_target_arr', 'set_targets'}
RENAME = {'next_lookup_zs': 'lookup_zs_next', '0': 'coeffs'}


def field_seq(fn):
    """field names read from `self`, in source order, per top-level branch structure flattened"""
    out = []
    for n in walk(fn.body):
        if n.get('k') == 'Field' and n['e'].get('k') == 'Local' and n['e']['n'] == 'self':
            out.append(RENAME.get(n['n'], n['n']))
    return out


def struct_fields(F, path):
    a = F.adts.get(path)
    return [f for f, t, _ in a['variants'][0]['f']] if a else None


CFG_TYPES = ('FriConfig', 'FriParams', 'CircuitConfig', 'CommonCircuitData', 'StarkConfig')
CIRCUIT_FILES = ('recursion/recursive_verifier.rs', 'plonk/get_challenges.rs', 'fri/recursive_verifier.rs', 'batch_fri/recursive_verifier.rs', 'fri/challenges.rs', 'plonk/vanishing_poly.rs',
                 'starky/src/recursive_verifier.rs', 'starky/src/get_challenges.rs', 'recursion/conditional_recursive_verifier.rs', 'recursion/cyclic_recursion.rs', 'recursion/dummy_circuit.rs')
# (function, callee) pairs that legitimately use the outer configuration
OUTER_CONFIG_OK = {('check_recursion_config', 'new_from_config'): 'builds a scratch circuit with the OUTER configuration to test whether it can host a recursive verifier'}


def inner_config_source(F, ck):
    from .facts import ty_adt, pat_binds
    n = 0
    for fn in sorted(F.fns.values(), key=lambda f: f.qual):
        if fn.crate not in ('plonky2', 'starky') or fn.body is None or not fn.file.endswith(CIRCUIT_FILES):
            continue
        ptys = [fn.types[b['t']] if b.get('t') is not None else '' for p in fn.params for b in pat_binds(p)]
        if not any('CircuitBuilder' in t for t in ptys):
            continue
        fl = flow.Flow(F, fn)
        for e in fl.events:
            if e.kind != 'call' or (e.callee or '').startswith(('core::', 'std::')) or e.name in ('assert_failed',):
                continue
            for v, nd in zip(e.args, e.node.get('a', [])):
                t = ty_adt(fn.ty(nd) or '') or ''
                if t not in CFG_TYPES:
                    continue
                n += 1
                roots = {a[2:].split('.')[0].split('[')[0] for a in flow.flat(v) if a.startswith('p:')} - {'self', 'builder'}
                # any part taken from the builder's own configuration disqualifies the argument, even if another part (e.g. the degree)
                # comes from the inner circuit
                if 'F:CircuitBuilder.config' in flow.flat(v):
                    roots = set()
                if (fn.name, e.name) in OUTER_CONFIG_OK:
                    ck.ob('R06.6', 'cfg:%s:%s:%s' % (fn.qual, e.name, t), True, 'reviewed: ' + OUTER_CONFIG_OK[(fn.name, e.name)], e.loc())
                    continue
                ck.ob('R06.6', 'cfg:%s:%s:%s' % (fn.qual, e.name, t), bool(roots), 'from parameter %s' % ','.join(sorted(roots)) if roots else
                      'OUTER CONFIGURATION USED: %s passes a %s to %s that does not derive from any of its parameters (it comes from the builder\'s own configuration): the inner proof is then verified under the outer '
                      'circuit\'s parameters (query count, grinding bits, arities), which differ whenever inner and outer configurations differ' % (fn.qual, t, e.q), e.loc())
    ck.floor('R06.6', 'configuration-typed arguments in in-circuit verifier functions', n, 50)
    # second clause: a function that is handed the INNER configuration must not size anything from the builder's own configuration
    # (a cap height, a number of wires ...): that value describes the outer circuit
    m = 0
    for fn in sorted(F.fns.values(), key=lambda f: f.qual):
        if fn.crate not in ('plonky2', 'starky') or fn.body is None or not fn.file.endswith(CIRCUIT_FILES):
            continue
        ptys = [fn.types[b['t']] if b.get('t') is not None else '' for p in fn.params for b in pat_binds(p)]
        if not any('CircuitBuilder' in t for t in ptys) or not any((ty_adt(t) or '') in CFG_TYPES for t in ptys):
            continue
        m += 1
        fl = flow.Flow(F, fn)
        bad = None
        for e in fl.events:
            if e.kind != 'call' or e.name in ('assert_failed',) or (fn.name, e.name) in OUTER_CONFIG_OK:
                continue
            for v, nd in zip(e.args, e.node.get('a', [])):
                t = ty_adt(fn.ty(nd) or '') or ''
                if t in CFG_TYPES or t.endswith('Generator'):
                    continue      # first clause / a generator struct that merely contains such a value
                if 'F:CircuitBuilder.config' in flow.flat(v):
                    bad = (e, fn.ty(nd))
                    break
            if bad:
                break
        if bad is None:
            # ... nor decide anything by it: a branch on the builder's configuration (e.g. an early exit when the OUTER circuit uses
            # no grinding) makes the verification of the inner proof depend on the outer configuration
            for x in walk(fn.body):
                if x.get('k') == 'If':
                    for y in walk(x['c']):
                        if y.get('k') == 'Field' and y.get('n') == 'config':
                            b_ = y['e']
                            while b_.get('k') in ('Ref', 'Un'):
                                b_ = b_['e']
                            if b_.get('k') == 'Local' and b_.get('n') == 'self' or ('CircuitBuilder' in (fn.ty(y['e']) or '')):
                                class _E:
                                    q = 'a branch condition'
                                    def __init__(self, n): self.n = n
                                    def loc(self): return self.n.get('s')
                                bad = (_E(x), 'condition')
                                break
                    if bad:
                        break
        ck.ob('R06.6', 'sizes:%s' % fn.qual, bad is None, 'nothing is sized from the outer configuration' if bad is None else
              'OUTER CONFIGURATION USED: %s, which is handed the inner circuit\'s configuration, passes a %s taken from the builder\'s own configuration to %s: when inner and outer configurations differ (e.g. another cap height) '
              'the targets created for the inner proof / verifier data have the wrong shape' % (fn.qual, bad[1], bad[0].q), bad[0].loc() if bad else None)
    ck.floor('R06.6', 'in-circuit functions that receive an inner configuration', m, 25)


def run(F, ck, tier):
    E = ob.Engine(F, ck)
    ck.rule('R06.1', 'twin table: each native check (PLONK verifier, FRI verifier incl. variable-degree variant) has an in-circuit assertion sink fed by the corresponding targets')
    ck.rule('R06.2', 'in-circuit transcript aligns with the native transcript')
    ck.rule('R06.3', 'witness assignment covers every field of the target structs and pairs same-named fields')
    ck.rule('R06.4', 'OpeningSet::to_fri_openings and OpeningSetTarget::to_fri_openings flatten the same fields in the same order')
    native_ids = {s['id'] for s in tables_fri.NATIVE + tables_plonk.NATIVE + tables_merkle.NATIVE}
    rows = tables_plonk.CIRCUIT + tables_fri.CIRCUIT + tables_fri.CIRCUIT_MULTI + tables_merkle.CIRCUIT
    for spec in rows:
        spec = dict(spec)
        spec.setdefault('crate', 'plonky2')
        E.check('R06.1', spec)
    twinned = {s.get('twin') for s in rows}
    # native rows that deliberately have no circuit twin (reviewed)
    NO_TWIN = {'fri.shape': 'shape is fixed by add_virtual_fri_proof (targets have the right lengths by construction)',
               'fri.nqueries': 'number of query-round targets is fixed by construction (debug_assert only)',
               'fri.reduced_openings': 'covered inside fri.rounds.circuit sources (from_os_and_alpha)'}
    for nid in sorted(native_ids):
        has = nid in twinned
        ck.ob('R06.1', 'twin-exists:' + nid, has or nid in NO_TWIN, 'circuit twin present' if has else ('reviewed: ' + NO_TWIN[nid]) if nid in NO_TWIN else 'native obligation %s has no circuit twin in the table' % nid)
    # ---- R06.2
    trs = {}
    for side in ('V', 'C'):
        q, crate, extra = c04.SIDES['plonk'][side]
        cands = [f for f in F.find(q, crate=crate) if not f.trait]
        if len(cands) == 1:
            trs[side] = transcript.extract(F, cands[0], extra_inline=extra) + (cands[0],)
    if len(trs) == 2:
        ok, info = c04.align(trs['V'][0], trs['C'][0])
        unrev = []
        if ok:
            for which, t in info:
                if ('plonk', 'V~C', which, t.fn.name, c04.sig(t)) not in REVIEWED:
                    unrev.append(t)
        ck.ob('R06.2', 'transcript:plonk:V~C', ok and not unrev, ('%d native / %d circuit transcript events align' % (len(trs['V'][0]), len(trs['C'][0]))) if ok and not unrev else
              'in-circuit transcript diverges from the native one (%s)' % (('unmatched %s in %s' % (unrev[0].method, unrev[0].fn.qual)) if unrev else 'sequence mismatch'), trs['C'][2].file)
    else:
        ck.ob('R06.2', 'transcript:plonk:V~C', False, 'ANCHOR-MISSING transcript functions')
    # ---- R06.3
    roots = [('WitnessWrite::set_proof_with_pis_target', ['plonky2::plonk::proof::ProofWithPublicInputsTarget', 'plonky2::plonk::proof::ProofTarget', 'plonky2::plonk::proof::OpeningSetTarget',
                                                       'plonky2::fri::proof::FriProofTarget', 'plonky2::fri::proof::FriQueryRoundTarget', 'plonky2::fri::proof::FriInitialTreeProofTarget', 'plonky2::fri::proof::FriQueryStepTarget'],
              ['plonky2::plonk::proof::ProofWithPublicInputs', 'plonky2::plonk::proof::Proof', 'plonky2::plonk::proof::OpeningSet',
               'plonky2::fri::proof::FriProof', 'plonky2::fri::proof::FriQueryRound', 'plonky2::fri::proof::FriInitialTreeProof', 'plonky2::fri::proof::FriQueryStep']),
             ('WitnessWrite::set_verifier_data_target', ['plonky2::plonk::circuit_data::VerifierCircuitTarget'], ['plonky2::plonk::circuit_data::VerifierOnlyCircuitData'])]
    for q, tstructs, vstructs in roots:
        cands = F.find(q, crate='plonky2')
        if len(cands) != 1:
            ck.ob('R06.3', 'anchor:' + q, False, 'ANCHOR-MISSING %s' % q)
            continue
        inl = lambda c, d, ev: F.fns.get(c) if (c in F.fns and F.fns[c].crate == 'plonky2' and parse_path(c)[1] not in SET_SINKS | {'set_target_returning_rep'}) else None
        fl = flow.Flow(F, cands[0], inline=inl, depth=6)
        tset, vset = set(), set()
        pairs = []
        for e in fl.events:
            if e.kind == 'call' and e.name in SET_SINKS and len(e.args) >= 2:
                t = {a for a in flow.flat(e.args[0]) if a.startswith('F:')}
                v = {a for a in flow.flat(e.args[1]) if a.startswith('F:')}
                tset |= t
                vset |= v
                pairs.append((t, v, e))
        nf = 0
        for structs, seen, what in ((tstructs, tset, 'target'), (vstructs, vset, 'value')):
            for sp in structs:
                fs = struct_fields(F, sp)
                if fs is None:
                    ck.ob('R06.3', 'anchor:' + sp, False, 'ANCHOR-MISSING struct %s' % sp)
                    continue
                short = sp.split('::')[-1]
                for f in fs:
                    if (short, f) in (('FriQueryRoundTarget', 'steps'), ) and False:
                        continue
                    nf += 1
                    atom = 'F:%s.%s' % (short, f)
                    ok = atom in seen
                    ck.ob('R06.3', 'assigned:%s.%s' % (short, f), ok, ('%s field %s.%s is never %s by %s: that part of the in-circuit proof stays unassigned / is fed from elsewhere' % (what, short, f, 'written' if what == 'target' else 'read', cands[0].qual)) if not ok else 'covered', '%s:%d' % (cands[0].file, cands[0].line))
        ck.floor('R06.3', 'fields of target/value structs for %s' % cands[0].name, nf, 4)
        # pairing: a sink that names exactly one most-specific target field must name the same-named value field
        for t, v, e in pairs:
            tn = {RENAME.get(a.split('.')[-1], a.split('.')[-1]) for a in t}
            vn = {RENAME.get(a.split('.')[-1], a.split('.')[-1]) for a in v}
            if not tn or not vn:
                continue
            # ignore container-level names shared by construction
            ok = bool(tn & vn) or tn <= {'batches', 'values'}
            ck.ob('R06.3', 'paired:%s:%s' % (e.fn.name, '+'.join(sorted(tn))[:60]), ok, 'target and value fields correspond' if ok else
                  'assignment in %s writes target field(s) %s from value field(s) %s: names do not correspond' % (e.fn.qual, sorted(tn), sorted(vn)), e.loc())
    # ---- R06.4
    a = [f for f in F.find('OpeningSet::to_fri_openings', crate='plonky2')]
    b = [f for f in F.find('OpeningSetTarget::to_fri_openings', crate='plonky2')]
    if len(a) != 1 or len(b) != 1:
        ck.ob('R06.4', 'anchor', False, 'ANCHOR-MISSING to_fri_openings (%d, %d)' % (len(a), len(b)))
    else:
        sa, sb = field_seq(a[0]), field_seq(b[0])
        ck.ob('R06.4', 'order:plonk', sa == sb and len(sa) >= 9, 'same field order (%d reads)' % len(sa) if sa == sb else
              'OpeningSet::to_fri_openings flattens %s but OpeningSetTarget::to_fri_openings flattens %s: set_fri_openings pairs them positionally, so openings would be assigned to the wrong targets' % (sa, sb), '%s:%d' % (b[0].file, b[0].line))
        fs = set(struct_fields(F, 'plonky2::plonk::proof::OpeningSet') or [])
        ck.ob('R06.4', 'complete:plonk', fs <= set(sa), 'all %d opening fields flattened' % len(fs) if fs <= set(sa) else 'to_fri_openings omits %s' % sorted(fs - set(sa)), '%s:%d' % (a[0].file, a[0].line))
    # ---- R06.6
    ck.rule('R06.6', 'the in-circuit verifier is parameterised by the INNER circuit: every configuration-typed argument (FriConfig, FriParams, CircuitConfig, CommonCircuitData, StarkConfig) passed by an in-circuit '
                     'verifier function derives from one of its parameters, never from the outer builder\'s own configuration')
    inner_config_source(F, ck)
    # ---- R06.9
    ck.rule('R06.9', 'the proof targets created by add_virtual_proof have the leaf sizes of the FRI oracle table (polynomial counts; salt exactly for blinding oracles), compared as polynomials')
    from . import lengths
    lengths.target_leaves(F, ck, 'R06.9')
    # ---- R06.8
    ck.rule('R06.8', 'the in-circuit table polynomial pads like the native one: the symbolic interval of the padding count in get_lut_poly_circuit equals that of get_lut_poly')
    from . import c08
    pb = {sw.name: res for sw, n, res in c08.pad_bounds(F) if sw is not None and n is not None and not isinstance(res, str)}
    if 'get_lut_poly' in pb and 'get_lut_poly_circuit' in pb:
        okp = pb['get_lut_poly'] == pb['get_lut_poly_circuit']
        ck.ob('R06.8', 'lut-padding:native~circuit', okp, 'both pad with [%s, %s] (a*num_slots+b pairs)' % pb['get_lut_poly'] if okp else
              'get_lut_poly pads with a count in %s but get_lut_poly_circuit with a count in %s (pairs (a, b) mean a*num_slots+b): the in-circuit verifier evaluates a different table polynomial than the native one, '
              'so it rejects valid lookup proofs (or accepts ones the native verifier rejects) whenever the table length is a multiple of the slot count' % (pb['get_lut_poly'], pb['get_lut_poly_circuit']))
    else:
        ck.observe('R06.8 not applicable: padding computation not found in both get_lut_poly variants (%s)' % sorted(pb))
    # ---- R06.7
    ck.rule('R06.7', 'witness assignment pairs targets with proof values exactly: zip_eq, fixed-size arrays, or an Err-returning guard that rejects a value sequence longer than its targets')
    assign.check(F, ck, 'R06.7')
    # ---------------------------------------------------------------- R06.10 the in-circuit proof-of-work constraint has no exemption
    ck.rule('R06.10', 'CircuitBuilder::fri_verify_proof_of_work emits its constraint for every non-zero number of required leading zeros: an early exit is admissible only for "<= 0" (normalised algebraically); the native check has no exemption at all')
    from . import poly as _poly
    pw = [f for f in F.find('CircuitBuilder::fri_verify_proof_of_work', crate='plonky2') if f.body is not None]
    if len(pw) != 1:
        ck.ob('R06.10', 'anchor', False, 'ANCHOR-MISSING CircuitBuilder::fri_verify_proof_of_work (%d)' % len(pw))
    else:
        fnp = pw[0]
        sink = any(x.get('k') == 'MCall' and x.get('n') in ('assert_leading_zeros', 'range_check', 'split_le', 'assert_zero') for x in walk(fnp.body))
        bad = []
        diffs = {id(n): d for d, n in _poly.cmp_diffs(_poly.Ev(F), fnp)}
        for x in walk(fnp.body):
            if x.get('k') != 'If':
                continue
            exits = any(y.get('k') == 'Ret' for br in (x.get('th'), x.get('el')) if br is not None for y in walk(br))
            if not exits:
                continue
            for c in walk(x['c']):
                if c.get('k') != 'Bin' or c.get('op') not in ('Lt', 'Le', 'Gt', 'Ge', 'Eq', 'Ne'):
                    continue
                if c['op'] == 'Eq' and any(s_.get('k') == 'Lit' and str(s_.get('v')) == '0' for s_ in (c['l'], c['r'])):
                    continue
                lit_ = [s_ for s_ in (c['l'], c['r']) if s_.get('k') == 'Lit' and s_.get('lk') == 'int']
                loc_ = [s_ for s_ in (c['l'], c['r']) if s_.get('k') == 'Local']
                if len(lit_) == 1 and len(loc_) == 1:
                    v_ = int(lit_[0]['v'])
                    op_ = c['op'] if c['l'] is loc_[0] else {'Lt': 'Gt', 'Le': 'Ge', 'Gt': 'Lt', 'Ge': 'Le'}.get(c['op'], c['op'])
                    if (op_ == 'Lt' and v_ <= 1) or (op_ == 'Le' and v_ <= 0):
                        continue    # x < 1, x <= 0 on an unsigned quantity: zero only
                    bad.append(c.get('s'))
                    continue
                d = diffs.get(id(c))
                if d is not None and d.get((), 0) == 0 and all(v < 0 for m, v in d.items() if m != ()):
                    continue        # x <= 0
                bad.append(c.get('s'))
        okp = sink and not bad
        ck.ob('R06.10', 'pow.circuit.no-exemption', okp, 'constraint emitted for every non-zero requirement' if okp else
              ('IN-CIRCUIT PROOF OF WORK SKIPPED: CircuitBuilder::fri_verify_proof_of_work returns early under a condition that also holds for a non-zero number of required leading zeros: '
               'for such configurations a proof with a bad grinding witness, which the native verifier rejects, satisfies the outer circuit' if bad else
               'CircuitBuilder::fri_verify_proof_of_work no longer constrains the leading zeros of the response'), bad[0] if bad else '%s:%d' % (fnp.file, fnp.line))
    # ---------------------------------------------------------------- R06.11 the in-circuit FRI walks a mixed-arity schedule step by step
    ck.rule('R06.11', 'the in-circuit FRI query round takes every per-step quantity from the arity of THAT step (R16.3 of C16: no `first()` / position-times-arity shortcut): a uniform-arity assumption rejects valid inner proofs under mixed schedules')
    from . import c16 as _c16, report as _report
    _c16.run(F, _report.FilterProxy(ck, {'R16.3': 'R06.11'}), tier)
    ck.decided += ['each native PLONK/FRI check has a circuit twin with corresponding sources', 'circuit transcript = native transcript', 'witness assignment covers and pairs all target fields', 'opening order native = target']
    ck.undecided += ['equality of the accepted sets (behavioural)', 'gadget-level correctness of the in-circuit arithmetic']
    return 'Decides structural necessary conditions of C06: twin obligations, transcript agreement, witness-assignment coverage/pairing and opening-order agreement. Does not decide equality of the accepted sets.'


REVIEWED = {
    ('plonk', 'V~C', 'A', 'fri_challenges', ('obs', 'elem', True)), ('plonk', 'V~C', 'A', 'fri_challenges', ('sq', 'ext', True)), ('plonk', 'V~C', 'A', 'fri_challenges', ('obs', 'ext', True)),
}
