"""Length-pin coverage (R03.2 / R05.7 / R18.2): every length-bearing position of a proof type family must be compared
for equality with something by an Err-returning guard reachable from the entry point."""
from .facts import parse_path
from . import flow, cha as cha_mod
from .facts import split_top

# ----------------------------------------------------------------------------- type walk (R18.2)
LEAF_PREFIXES = ('F', 'u8', 'u16', 'u32', 'u64', 'usize', 'bool', '<')


def outer(t):
    t = t.strip()
    while t.startswith('&'):
        t = t[1:].lstrip()
        if t.startswith('mut '):
            t = t[4:]
    i = t.find('<')
    if i < 0:
        return t, []
    name = t[:i]
    inner = t[i + 1:t.rfind('>')]
    return name, split_top(inner)


def required_pins(F, tyname, path, out, depth=0, seen=()):
    """Walk a type; emit (path-alternatives, description) for every length-bearing position."""
    if depth > 8:
        return
    t = tyname.strip()
    if t.startswith('('):
        parts = split_top(t[1:-1])
        for i, p in enumerate(parts):
            required_pins(F, p, '%s.%d' % (path, i), out, depth + 1, seen)
        return
    name, args = outer(t)
    short = name.split('::')[-1]
    if short == 'Vec' and args:
        out.append(([path], 'Vec length'))
        required_pins(F, args[0], path + '[]', out, depth + 1, seen)
        return
    if short == 'Option' and args:
        out.append(([path, path + '[]'], 'Option presence'))
        required_pins(F, args[0], path, out, depth + 1, seen)
        return
    if short == 'MerkleCap':
        out.append(([path, path + '.0'], 'cap size'))
        return
    if short == 'PolynomialCoeffs':
        out.append(([path, path + '.coeffs'], 'polynomial length'))
        return
    if short == 'MerkleProof':
        out.append(([path, path + '.siblings'], 'Merkle path length'))
        return
    if short in ('HashMap', 'BTreeMap'):
        out.append(([path], 'map size / key set'))
        return
    adt = F.adts.get(name)
    if adt is not None and adt['kind'] == 'struct' and name not in seen:
        for fname, fty, _ in adt['variants'][0]['f']:
            required_pins(F, fty, '%s.%s' % (path, fname), out, depth + 1, seen + (name,))
        return
    # leaf (field element, hash, primitive, generic param)




ENTRIES = [
    # (entry, crate, root param, type, inline names, label)
    ('plonk::verifier::verify', 'plonky2', 'proof_with_pis', 'plonky2::plonk::proof::ProofWithPublicInputs<F, C, D>',
     {'validate_proof_with_pis_shape', 'validate_proof_shape', 'validate_fri_proof_shape', 'validate_batch_fri_proof_shape', 'verify_with_challenges', 'verify_fri_proof'}, 'plonk'),
    ('batch_fri::verifier::verify_batch_fri_proof', 'plonky2', 'proof', 'plonky2::fri::proof::FriProof<F, H, D>',
     {'validate_batch_fri_proof_shape'}, 'batch_fri'),
    ('starky::verifier::verify_stark_proof_with_challenges', 'starky', 'proof', 'starky::proof::StarkProof<F, C, D>',
     {'validate_proof_shape', 'check_lookup_options', 'verify_fri_proof', 'validate_fri_proof_shape', 'validate_batch_fri_proof_shape'}, 'stark'),
]


def check(F, ck, rule, labels=None, floor=30):
    C = cha_mod.CHA(F)
    total_req = 0
    for q, crate, root, ty, names, label in ENTRIES:
        if labels and label not in labels:
            continue
        fn = F.one(q, crate=crate)
        if fn is None:
            ck.ob(rule, 'anchor:' + q, False, 'ANCHOR-MISSING: entry point %s' % q, q)
            continue
        # the proof parameter is identified by name, or by type if it was renamed
        from .facts import pat_binds, ty_adt
        pnames = {b['n']: (fn.types[b['t']] if b.get('t') is not None else '') for p in fn.params for b in pat_binds(p)}
        if root not in pnames:
            want = ty.split('<')[0].split('::')[-1]
            alt = [n for n, t in pnames.items() if ty_adt(t) == want]
            if len(alt) == 1:
                root = alt[0]
        # inline the named validators / verifiers, and any non-trait helper defined in the same file as one of them (a validator
        # split into sub-validators, a check moved into a helper) - refactorings must not lose pins
        names = set(names)
        for n_ in sorted(names):
            c_ = [f for f in F.fns.values() if f.name == n_ and f.owner is None and f.crate in ('plonky2', 'starky')]
            if len(c_) == 1:
                F.record_callee(n_, c_[0].d)
            rn = F.renamed_callee(n_)
            if rn:
                names.add(rn)
        vfiles = {f.file for f in F.fns.values() if f.name in names and f.crate in ('plonky2', 'starky')}

        def inl(c, d, ev, names=names, vfiles=vfiles):
            if parse_path(c)[1] in names:
                return C.targets(c, d)
            f2 = F.fns.get(c)
            if f2 is not None and f2.body is not None and not f2.trait and f2.file in vfiles and f2.owner is None:
                return f2
            return None
        fl = flow.Flow(F, fn, inline=inl, depth=5)
        pins = set()
        for e in fl.events:
            if e.kind == 'guard':
                # a guard that runs only for some PROOF values (e.g. after an early `return Ok(())` taken when an optional part
                # is absent) pins nothing for the others; conditions on trusted data, or on the pinned part itself, are fine
                for a in e.eq_pins:
                    foreign = [c for fr_ in e.ctx if fr_[0] == 'if' for c in flow.flat(fr_[1])
                               if c.startswith('p:' + root) and (c[2 + len(root):][:1] in ('', '.', '['))
                               and not (a == c or a.startswith(c + '.') or a.startswith(c + '[') or c.startswith(a + '.') or c.startswith(a + '['))]
                    if not foreign:
                        pins.add(a)
        req = []
        required_pins(F, ty, 'p:' + root, req)
        total_req += len(req)
        for alts, what in req:
            ok = any(a in pins for a in alts)
            key = 'pin:%s:%s' % (label, alts[0][2:])
            ck.ob(rule, key, ok, ('%s of %s is never compared for EQUALITY with anything by an Err-returning guard on the way from %s: a proof with a wrong %s (dropped, truncated, duplicated component) reaches indexing / zips unchecked' % (what, alts[0][2:], fn.qual, what))
                  if not ok else '%s pinned' % what, '%s:%d' % (fn.file, fn.line))
    ck.floor(rule, 'length-bearing positions in the proof type family', total_req, floor)
