"""C13 - optimised hashing and the transcript sponge equal their specification (ONE structural clause only).

Decided: the *sponge discipline* clause - hashing, two-to-one compression and both challengers are the same overwrite-mode sponge:
inputs overwrite the state from position 0 in chunks of RATE, the permutation is applied after every chunk, outputs are the first
RATE state elements, the native and in-circuit hash loops are the same skeleton, compression places its two digests at 0 and
NUM_HASH_OUT_ELTS, and the permutation containers expose exactly the rate part.

NOT decided (numeric, no static argument in reach): that the optimised Poseidon permutation (fast partial rounds, frequency-domain
MDS, delayed reduction, SIMD) equals the textbook permutation on every input - the first sentence of the property.

R13.1 absorb sites: (set_from_slice | set_from_iter)(data, 0) followed by a permutation, data = the RATE-sized chunk of the inputs
R13.2 chunking unit is RATE (not WIDTH) at every site; the native challenger absorbs exactly when RATE inputs are buffered
R13.3 PlonkyPermutation impls: squeeze() = state[..RATE]; set_from_slice writes state[start..start+len]; RATE < WIDTH, WIDTH - RATE >= digest size
R13.4 compress: x at 0, y at NUM_HASH_OUT_ELTS, one permutation, output = first NUM_HASH_OUT_ELTS of squeeze()
R13.5 native and in-circuit hash_n_to_m_no_pad have the same skeleton
"""
from . import flow, skeleton
from .facts import walk, parse_path, callee, kids


def _order(fn):
    return {id(n): i for i, n in enumerate(walk(fn.body))}


_DEFS = {}


def _last_seg(n, fn=None, depth=3):
    """last path segment of a constant / associated constant expression (a local bound by a plain `let` is looked through)"""
    while isinstance(n, dict) and n.get('k') in ('Ref', 'Cast', 'Un'):
        n = n['e']
    if isinstance(n, dict) and n.get('k') == 'Local' and fn is not None and depth > 0:
        from . import defrender
        if fn.d not in _DEFS:
            _DEFS[fn.d] = defrender.Defs(fn)
        d = _DEFS[fn.d].defs.get(n['id'])
        if d and d[0] == 'let':
            return _last_seg(d[1], fn, depth - 1)
    if isinstance(n, dict) and n.get('k') == 'Def':
        return n['d'].split('::')[-1]
    if isinstance(n, dict) and n.get('k') == 'Lit':
        return str(n['v'])
    return None


def const_value(F, n, depth=4):
    """integer value of a constant expression (literals, + of constants, constant items)"""
    while isinstance(n, dict) and n.get('k') in ('Ref', 'Cast', 'Un'):
        n = n['e']
    if not isinstance(n, dict) or depth < 0:
        return None
    if n.get('k') == 'Lit' and n.get('lk') == 'int':
        return int(n['v'])
    if n.get('k') == 'Bin' and n['op'] in ('Add', 'Sub', 'Mul'):
        a, b = const_value(F, n['l'], depth - 1), const_value(F, n['r'], depth - 1)
        if a is None or b is None:
            return None
        return a + b if n['op'] == 'Add' else a - b if n['op'] == 'Sub' else a * b
    if n.get('k') == 'Def':
        c = F.fns.get(n['d'])
        if c is not None and c.body is not None:
            return const_value(F, c.body, depth - 1)
    if n.get('k') == 'Block' and not n['st'] and 'e' in n:
        return const_value(F, n['e'], depth - 1)
    return None


SITES = [
    # (function, crate, how the absorbed data is obtained)
    ('hash::hashing::hash_n_to_m_no_pad', 'chunks'),
    ('CircuitBuilder::hash_n_to_m_no_pad', 'chunks'),
    ('RecursiveChallenger::absorb_buffered_inputs', 'chunks'),
    ('Challenger::duplexing', 'buffer'),
]


def run(F, ck, tier):
    ck.rule('R13.1', 'every absorb site overwrites the state from position 0 with its input chunk and then applies the permutation')
    ck.rule('R13.2', 'the absorption unit is RATE at every site; the native challenger absorbs exactly when RATE inputs are buffered')
    ck.rule('R13.3', 'permutation containers: squeeze() is state[..RATE], set_from_slice writes state[start..start+len], RATE < WIDTH with capacity >= digest size')
    ck.rule('R13.4', 'compress(x, y): x at 0, y at NUM_HASH_OUT_ELTS, one permutation, output is the first NUM_HASH_OUT_ELTS of squeeze()')
    ck.rule('R13.5', 'native and in-circuit hash_n_to_m_no_pad are the same skeleton of sponge operations')
    nsites = 0
    for q, how in SITES:
        c = [f for f in F.find(q, crate='plonky2') if f.body is not None and (f.owner is None) == ('::' not in q.replace('hash::hashing::', ''))]
        if len(c) != 1:
            ck.ob('R13.1', 'anchor:' + q, False, 'ANCHOR-MISSING %s (%d candidates)' % (q, len(c)), q)
            continue
        fn = c[0]
        idx = _order(fn)
        loc = '%s:%d' % (fn.file, fn.line)
        sets = [n for n in walk(fn.body) if n.get('k') == 'MCall' and n['n'] in ('set_from_slice', 'set_from_iter') and len(n.get('a', [])) == 2]
        perms = [n for n in walk(fn.body) if n.get('k') in ('MCall', 'Call') and (parse_path(callee(n) or '')[1] or n.get('n') or '').startswith('permute')]
        sq = [n for n in walk(fn.body) if n.get('k') == 'MCall' and n['n'] == 'squeeze']
        ok_off = bool(sets) and all(_last_seg(s['a'][1], fn) == '0' for s in sets)
        ok_perm = bool(sets) and bool(perms) and any(idx[id(p)] > idx[id(sets[0])] for p in perms)
        nsites += 1
        ck.ob('R13.1', 'overwrite-at-0:' + fn.qual, ok_off, 'inputs overwrite the state from position 0' if ok_off else
              '%s no longer writes its input chunk at position 0 of the sponge state: the rate part is only partly overwritten, so this sponge differs from the other three' % fn.qual, sets[0].get('s') if sets else loc)
        ck.ob('R13.1', 'permute-after-absorb:' + fn.qual, ok_perm, 'the permutation follows the overwrite' if ok_perm else
              '%s does not apply the permutation after overwriting the state' % fn.qual, loc)
        ck.ob('R13.1', 'outputs-from-squeeze:' + fn.qual, bool(sq), 'outputs are read through squeeze()' if sq else '%s no longer takes its outputs from squeeze() (the rate part)' % fn.qual, loc)
        # data = chunk of the inputs
        if how == 'chunks':
            loops = [n for n in walk(fn.body) if n.get('k') == 'For']
            chunk_loops = []
            for lp in loops:
                for x in walk(lp['it']):
                    if x.get('k') == 'MCall' and x['n'] in ('chunks', 'chunks_exact') and x.get('a'):
                        chunk_loops.append((lp, x))
            okc = len(chunk_loops) == 1
            unit = _last_seg(chunk_loops[0][1]['a'][0], fn) if okc else None
            inside = okc and any(id(s) in {id(y) for y in walk(chunk_loops[0][0]['b'])} for s in sets) and any(id(p) in {id(y) for y in walk(chunk_loops[0][0]['b'])} for p in perms)
            ck.ob('R13.1', 'per-chunk:' + fn.qual, bool(inside), 'overwrite and permutation happen once per chunk' if inside else
                  '%s does not overwrite-and-permute once per input chunk' % fn.qual, loc)
            oku = unit == 'RATE' and okc and chunk_loops[0][1]['n'] == 'chunks'
            ck.ob('R13.2', 'unit:' + fn.qual, oku, 'inputs are absorbed in chunks of RATE' if oku else
                  '%s absorbs in chunks of %s (%s): with a unit other than RATE (or with the remainder dropped) the same inputs give a different digest than the other sponge implementations' % (fn.qual, unit, chunk_loops[0][1]['n'] if okc else '?'), loc)
        else:
            # buffer-based: a bound check against RATE, and the trigger in observe_element
            fl = flow.Flow(F, fn)
            bound = False
            for e in fl.events:
                if e.kind in ('assert', 'guard'):
                    names = {_last_seg(x) for x in walk(e.node) if x.get('k') == 'Def'}
                    if 'RATE' in names and flow.has_field(flow.flat(e.val), 'input_buffer'):
                        bound = True
            ck.ob('R13.2', 'unit:' + fn.qual, bound, 'at most RATE buffered inputs are absorbed at once (asserted)' if bound else
                  '%s no longer bounds the buffered inputs by RATE before overwriting the state' % fn.qual, loc)
            oe = [f for f in F.find('Challenger::observe_element', crate='plonky2') if f.file.endswith('iop/challenger.rs')]
            if len(oe) != 1:
                ck.ob('R13.2', 'anchor:Challenger::observe_element', False, 'ANCHOR-MISSING Challenger::observe_element')
            else:
                trig = False
                for n in walk(oe[0].body):
                    if n.get('k') == 'If' and any(x.get('k') == 'MCall' and x['n'] == fn.name for x in walk(n['th'])):
                        c_ = n['c']
                        names = {_last_seg(x) for x in walk(c_) if x.get('k') == 'Def'}
                        eqs = [x for x in walk(c_) if x.get('k') == 'Bin' and x['op'] in ('Eq', 'Ge')]
                        lens = [x for x in walk(c_) if x.get('k') == 'MCall' and x['n'] == 'len']
                        trig = 'RATE' in names and bool(eqs) and bool(lens)
                ck.ob('R13.2', 'trigger:Challenger::observe_element', trig, 'the buffer is absorbed exactly when it holds RATE inputs' if trig else
                      'Challenger::observe_element no longer absorbs when RATE inputs are buffered: chunk boundaries (and hence challenges) differ from the in-circuit challenger, which absorbs in chunks of RATE', '%s:%d' % (oe[0].file, oe[0].line))
    ck.floor('R13.1', 'absorb sites (native hash, circuit hash, both challengers)', nsites, 4)

    # ---------------------------------------------------------------- R13.3
    nimpl = 0
    for i in F.impls_of('PlonkyPermutation'):
        if i['crate'] != 'plonky2':
            continue
        fns = {f.name: f for f in F.fns.values() if f.raw.get('impl') == i['d']}
        owner = (i.get('self_adt') or '?').split('::')[-1]
        nimpl += 1
        sqf, ssf = fns.get('squeeze'), fns.get('set_from_slice')
        oksq = False
        if sqf is not None and sqf.body is not None:
            for x in walk(sqf.body):
                if x.get('k') == 'Index' and x['i'].get('k') == 'Struct' and 'Range' in (x['i'].get('d') or ''):
                    f_ = dict(x['i']['f'])
                    oksq = 'start' not in f_ and _last_seg(f_.get('end')) == 'RATE'
        ck.ob('R13.3', 'squeeze:' + owner, oksq, 'squeeze() returns state[..RATE]' if oksq else '%s::squeeze no longer returns exactly the first RATE state elements (capacity elements must never be output)' % owner,
              '%s:%d' % (sqf.file, sqf.line) if sqf else None)
        okss = False
        if ssf is not None and ssf.body is not None:
            fl = flow.Flow(F, ssf)
            for e in fl.events:
                if e.kind == 'call' and e.name == 'copy_from_slice' and flow.has_param(e.deps(), 'elts') and flow.has_param(flow.flat(e.recv) if e.recv is not None else flow.EMPTY, 'start_idx'):
                    okss = True
        ck.ob('R13.3', 'set_from_slice:' + owner, okss, 'set_from_slice copies elts to state[start_idx..]' if okss else '%s::set_from_slice no longer copies its argument to the state at start_idx' % owner,
              '%s:%d' % (ssf.file, ssf.line) if ssf else None)
        r = const_value(F, fns['RATE'].body) if 'RATE' in fns else None
        w = const_value(F, fns['WIDTH'].body) if 'WIDTH' in fns else None
        nh = [f for f in F.fns.values() if f.name == 'NUM_HASH_OUT_ELTS' and f.crate == 'plonky2']
        h = const_value(F, nh[0].body) if nh else None
        okc = r is not None and w is not None and h is not None and 0 < r < w and w - r >= h and r >= h
        ck.ob('R13.3', 'capacity:' + owner, okc, 'RATE=%s WIDTH=%s digest=%s' % (r, w, h) if okc else
              '%s: RATE=%s, WIDTH=%s, digest size=%s - the sponge needs 0 < digest <= RATE < WIDTH and a capacity of at least the digest size' % (owner, r, w, h), '%s:%d' % (fns['RATE'].file, fns['RATE'].line) if 'RATE' in fns else None)
    ck.floor('R13.3', 'PlonkyPermutation impls', nimpl, 2)

    # ---------------------------------------------------------------- R13.4
    cp = F.one('hash::hashing::compress', crate='plonky2')
    if cp is None:
        ck.ob('R13.4', 'anchor', False, 'ANCHOR-MISSING hash::hashing::compress')
    else:
        fl = flow.Flow(F, cp)
        sets = [e for e in fl.events if e.kind == 'call' and e.name == 'set_from_slice']
        offs = []
        for e in sets:
            d0 = flow.flat(e.args[0]) if e.args else flow.EMPTY
            offs.append((_last_seg(e.node['a'][1]), 'x' if flow.has_param(d0, 'x') else 'y' if flow.has_param(d0, 'y') else '?'))
        ok = sorted(offs, key=str) == [('0', 'x'), ('NUM_HASH_OUT_ELTS', 'y')]
        ck.ob('R13.4', 'compress.layout', ok, 'x at 0, y at NUM_HASH_OUT_ELTS' if ok else 'compress places its inputs at %s instead of x@0, y@NUM_HASH_OUT_ELTS: native two_to_one no longer matches the in-circuit Merkle step' % offs, '%s:%d' % (cp.file, cp.line))
        nperm = sum(1 for e in fl.events if e.kind == 'call' and e.name == 'permute')
        ck.ob('R13.4', 'compress.one_permutation', nperm == 1, 'exactly one permutation' if nperm == 1 else 'compress applies the permutation %d times' % nperm, '%s:%d' % (cp.file, cp.line))
        okout = False
        for x in walk(cp.body):
            if x.get('k') == 'Index' and x['i'].get('k') == 'Struct' and 'Range' in (x['i'].get('d') or '') and any(y.get('k') == 'MCall' and y['n'] == 'squeeze' for y in walk(x['e'])):
                f_ = dict(x['i']['f'])
                okout = 'start' not in f_ and _last_seg(f_.get('end')) == 'NUM_HASH_OUT_ELTS'
        ck.ob('R13.4', 'compress.output', okout, 'output = squeeze()[..NUM_HASH_OUT_ELTS]' if okout else 'compress no longer outputs the first NUM_HASH_OUT_ELTS elements of squeeze()', '%s:%d' % (cp.file, cp.line))

    # ---------------------------------------------------------------- R13.5
    a_ = [f for f in F.find('hash::hashing::hash_n_to_m_no_pad', crate='plonky2') if f.owner is None]
    a = a_[0] if len(a_) == 1 else None
    b = [f for f in F.find('CircuitBuilder::hash_n_to_m_no_pad', crate='plonky2')]
    if a is None or len(b) != 1:
        ck.ob('R13.5', 'anchor', False, 'ANCHOR-MISSING hash_n_to_m_no_pad (native / circuit)')
    else:
        def classify(n, fn=None):
            nm = parse_path(callee(n) or '')[1] or n.get('n')
            if n.get('k') == 'MCall' and nm in ('chunks', 'chunks_exact'):
                return '%s(%s)' % (nm, _last_seg(n['a'][0], fn) if n.get('a') else '?')
            if n.get('k') == 'MCall' and nm in ('set_from_slice', 'set_from_iter', 'set_elt'):
                return '%s@%s' % (nm, _last_seg(n['a'][-1], fn))
            if nm and nm.startswith('permute'):
                return 'permute'
            if n.get('k') == 'MCall' and nm in ('squeeze', 'push'):
                return nm
            return None
        sa = skeleton.render(skeleton.tree(a.body, lambda n: classify(n, a)))
        sb = skeleton.render(skeleton.tree(b[0].body, lambda n: classify(n, b[0])))
        ck.ob('R13.5', 'hash-skeleton:native~circuit', sa == sb, 'both: %s' % sa if sa == sb else
              'native hash_n_to_m_no_pad performs [%s] but the in-circuit one performs [%s]: the circuit computes a different hash than the native code' % (sa, sb), '%s:%d' % (b[0].file, b[0].line))
    # R13.6 / R13.7: chunking independence of the challenger buffer; representation independence of the permutation inputs
    ck.rule('R13.6', 'buffered outputs of a challenger are invalidated per buffered input (never for an empty absorb): chunking does not matter')
    from . import c04 as _c04
    _c04.invalidate_with_push(F, ck, 'R13.6')
    ck.rule('R13.7', 'the raw (possibly non-canonical) representation of a field element is read only inside the Poseidon arithmetic kernels: every other hash / permutation input is canonicalised first')
    nraw = 0
    for fn in sorted(F.fns.values(), key=lambda f: f.qual):
        if fn.crate not in ('plonky2', 'starky') or fn.body is None:
            continue
        allowed = '/hash/poseidon' in fn.file or '/hash/arch/' in fn.file
        for x in walk(fn.body):
            if x.get('k') == 'MCall' and x.get('n') == 'to_noncanonical_u64':
                nraw += 1
                if not allowed:
                    ck.ob('R13.7', 'raw-repr:%s' % fn.qual, False, '%s feeds the raw representation of a field element (to_noncanonical_u64) into a hash / encoding: equal field values held in different u64 representations give different digests or challenges' % fn.qual, x.get('s'))
    ck.ob('R13.7', 'raw-repr:confined', True, '%d raw-representation reads, all inside the Poseidon kernels' % nraw)
    ck.floor('R13.7', 'raw-representation reads seen', nraw, 4)
    # R13.8 a permutation that serialises its state reads the WHOLE state (rate and capacity)
    ck.rule('R13.8', 'every range loop of a PlonkyPermutation::permute implementation runs over the full state width: a permutation that only hashes the rate part forgets everything absorbed before the last block')
    from . import c07 as _c07
    for i_ in F.impls_of('PlonkyPermutation'):
        if i_['crate'] != 'plonky2':
            continue
        fns_ = {f.name: f for f in F.fns.values() if f.raw.get('impl') == i_['d']}
        owner_ = (i_.get('self_adt') or '?').split('::')[-1]
        if 'permute' not in fns_ or 'WIDTH' not in fns_:
            continue
        w_ = const_value(F, fns_['WIDTH'].body)
        lb_ = _c07.loop_bounds(F, fns_['permute'])
        okl = all(b == str(w_) for b in lb_)
        # ... and it does not go through a truncated view of the state (the rate view `squeeze()`, a sub-slice of `state`)
        trunc = [x for x in walk(fns_['permute'].body) if (x.get('k') == 'MCall' and x.get('n') == 'squeeze') or
                 (x.get('k') == 'Index' and x['i'].get('k') == 'Struct' and 'Range' in (x['i'].get('d') or '') and x['i'].get('d', '').split('::')[-1] != 'RangeFull' and
                  any(y.get('k') == 'Field' and y.get('n') == 'state' for y in walk(x['e'])))]
        if trunc:
            okl = False
            lb_ = lb_ + ['a truncated view of the state (%s)' % ('squeeze()' if trunc[0].get('k') == 'MCall' else 'state[a..b]')]
        ck.ob('R13.8', 'full-width:' + owner_, okl, 'state loops run over WIDTH = %s (%d loop(s))' % (w_, len(lb_)) if okl else
              '%s::permute has a state loop of length %s although the state has %s elements: the capacity part of the sponge state is dropped, so challenges depend only on the last absorbed block' % (owner_, [b for b in lb_ if b != str(w_)], w_),
              '%s:%d' % (fns_['permute'].file, fns_['permute'].line))
    from . import c14 as _c14
    _c14.lost_carry(F, ck, 'R13.9', 1)
    ck.decided += ['no discarded carry in the u160 accumulator of the Poseidon fast partial layer (R13.9: wrapping_* discharged by intervals, overflowing_* flags read)']
    ck.decided += ['sponge discipline: overwrite at 0 in RATE chunks, permutation per chunk, outputs from the rate part, native/circuit hash skeleton agreement, compression layout, container rate/capacity']
    ck.undecided += ['equality of the optimised Poseidon permutation (fast partial rounds, frequency-domain MDS, u160 reduction, SIMD) with the textbook permutation on every input - numeric, not decided',
                     'collision resistance / random-oracle behaviour']
    return ('Decides ONE clause of C13: that hashing, compression and both challengers follow the same overwrite-mode sponge discipline (structure of the absorb/squeeze code at its six sites). '
            'The first sentence of the property - numeric equality of the optimised and the textbook Poseidon permutation - is not decided by any static argument here.')
