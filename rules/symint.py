"""Intervals with one symbolic positive bound n: endpoints are linear forms a*n + b (a in {0,1}, b integer).
Enough to bound expressions like (n - len % n) % n.  Unknown shapes raise Unknown."""


class Unknown(Exception):
    pass


def lin_add(x, y):
    return (x[0] + y[0], x[1] + y[1])


def lin_sub(x, y):
    return (x[0] - y[0], x[1] - y[1])


def le(x, y):
    """x <= y for all n >= 1 ?"""
    a, b = y[0] - x[0], y[1] - x[1]
    return a >= 0 and a + b >= 0 if a >= 0 else False


def ev(n, sym_is, render):
    """returns (lo, hi) as linear forms; sym_is(node) -> True when node denotes the symbol n; others are [0, +inf) unknown naturals"""
    k = n.get('k')
    if sym_is(n):
        return ((1, 0), (1, 0))
    if k == 'Lit' and n.get('lk') == 'int':
        v = int(n['v'])
        return ((0, v), (0, v))
    if k in ('Cast', 'Ref'):
        return ev(n['e'], sym_is, render)
    if k == 'Block' and not n['st'] and 'e' in n:
        return ev(n['e'], sym_is, render)
    if k == 'Bin':
        op = n['op']
        if op == 'Rem':
            d = ev(n['r'], sym_is, render)
            if d[0] != d[1]:
                raise Unknown('modulus not exact')
            # x % m in [0, m-1]; if x is already within [0, m-1] keep it tighter
            try:
                x = ev(n['l'], sym_is, render)
                if le((0, 0), x[0]) and le(x[1], lin_sub(d[0], (0, 1))):
                    return x
            except Unknown:
                pass
            return ((0, 0), lin_sub(d[0], (0, 1)))
        a, b = ev(n['l'], sym_is, render), ev(n['r'], sym_is, render)
        if op == 'Add':
            return (lin_add(a[0], b[0]), lin_add(a[1], b[1]))
        if op == 'Sub':
            return (lin_sub(a[0], b[1]), lin_sub(a[1], b[0]))
        raise Unknown(op)
    raise Unknown(k)
