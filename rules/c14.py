"""C14 - field arithmetic is exact modular arithmetic on every representation (the few structural clauses).

R14.2 unchecked-precondition call sites: every call of add_no_canonicalize_trashing_input(x, y) is discharged by interval analysis
      (x + y < 2^64 + ORDER for all values its operands can take); add_canonical_u64 / sub_canonical_u64 receive constants < ORDER
R14.3 inverse_2exp takes its shortcut threshold from the characteristic's two-adicity
Everything else (exactness of results on all operands, extension-field axioms, packed lanes, the reduce160 magnitude bound) is NOT decided.
"""
from . import uint, flow, ob
from .facts import walk, callee, parse_path

ORDER = 2 ** 64 - 2 ** 32 + 1
EPSILON = 2 ** 32 - 1
CONSTS = {'EPSILON': EPSILON, 'ORDER': ORDER}


# (function, primitive, argument index): the operand that must be canonical for the wrap-around correction of the packed
# AVX2 routine to be exact (one conditional +-ORDER is enough only if one operand is < ORDER)
PACKED_CANONICAL = [('add', 'add_no_double_overflow_64_64s_s', 1), ('sub', '_mm256_cmpgt_epi64', 0), ('neg', '_mm256_sub_epi64', 1)]


def packed_canonical_operand(F, ck, rid='R14.5'):
    """R14.5 (AVX2 build only): in the packed add / sub / neg on raw vectors the operand that the single wrap-around correction
    relies on is the result of canonicalize_s (followed through the straight-line assignments of the function)."""
    ck.rule(rid, 'AVX2 packed add / sub / neg: the operand whose canonicity the single wrap-around correction relies on is the result of canonicalize_s (AVX2 build; typestate over the straight-line body)')
    fns = [f for f in F.fns.values() if f.crate == 'plonky2_field' and f.file.endswith('avx2_goldilocks_field.rs') and f.body is not None]
    if not fns:
        return      # file not compiled in this configuration
    for fname, prim, ai in PACKED_CANONICAL:
        cand = [f for f in fns if f.name == fname and '::' not in f.qual]
        if len(cand) != 1:
            ck.ob(rid, 'packed:%s' % fname, False, 'ANCHOR-MISSING free function %s in avx2_goldilocks_field.rs (%d candidates)' % (fname, len(cand)))
            continue
        fn = cand[0]
        canon = {}

        def is_canon(e):
            while e.get('k') in ('Paren', 'Block') and ('e' in e):
                if e.get('k') == 'Block' and e.get('st'):
                    break
                e = e['e']
            if e.get('k') == 'Call' and parse_path(callee(e) or '')[1] == 'canonicalize_s':
                return True
            if e.get('k') == 'Local':
                return canon.get(e['id'], False)
            return False
        verdict = None
        loc = None
        body = fn.body
        while body.get('k') == 'Block' and body.get('unsafe') is not None and not body.get('st') and 'e' in body and body['e'].get('k') == 'Block':
            body = body['e']
        seq = list(body.get('st', [])) + ([body['e']] if 'e' in body else [])
        for st in seq:
            for x in walk(st):
                if x.get('k') == 'Call' and parse_path(callee(x) or '')[1] == prim and len(x.get('a', [])) > ai and verdict is None:
                    verdict = is_canon(x['a'][ai])
                    loc = x.get('s')
            if st.get('k') == 'Let' and 'i' in st and st['p'].get('k') == 'Bind':
                canon[st['p']['id']] = is_canon(st['i'])
            elif st.get('k') == 'Assign' and st.get('l', {}).get('k') == 'Local':
                canon[st['l']['id']] = is_canon(st['r'])
        if verdict is None:
            ck.ob(rid, 'packed:%s' % fname, False, 'ANCHOR-MISSING: %s no longer calls %s' % (fname, prim), '%s:%d' % (fn.file, fn.line))
            continue
        ck.ob(rid, 'packed:%s' % fname, verdict, 'operand %d of %s is the result of canonicalize_s' % (ai, prim) if verdict else
              'PACKED OPERAND NOT CANONICAL: AVX2 %s passes operand %d of %s without canonicalising it first: the routine corrects a wrap-around only once, which is exact only if that operand is < ORDER; '
              'for two non-canonical lanes whose sum / difference wraps twice the lane differs from the scalar result by 2^32 - 1' % (fname, ai, prim), loc)


# wrapping operations whose wrap-around is the intended result (function, method): one line of reason each
INTENDED_WRAP = {
    ('from_noncanonical_i64', 'wrapping_add'): "ORDER + (n as u64) for n < 0: both operands have the high bit set, the wrap-around IS the reduction (two's complement)",
}
KERNEL_FILES = {'R14.6': ('plonky2_field', ('goldilocks_field.rs', 'goldilocks_extensions.rs')),
                'R13.9': ('plonky2', ('hash/poseidon.rs', 'hash/poseidon_goldilocks.rs'))}


def lost_carry(F, ck, rid, floor_over):
    """No silently discarded carry in the multi-limb kernels: every integer wrapping_add / wrapping_sub / wrapping_mul is
    discharged by the interval analysis (the operands cannot overflow the type) or listed as an intended wrap; every
    overflowing_add / overflowing_sub / overflowing_mul binds its overflow flag to a named local that the function reads."""
    crate, files = KERNEL_FILES[rid]
    ck.rule(rid, 'no silently lost carry in the %s kernels: each integer wrapping_* is shown non-overflowing by interval analysis (or is a listed intended wrap) and each overflowing_* has its flag bound to a local that is read' % '/'.join(files))
    nover = nwrap = 0
    for fn in sorted(F.fns.values(), key=lambda f: f.d):
        if fn.crate != crate or fn.body is None or not fn.file.endswith(files):
            continue
        body_nodes = list(walk(fn.body))
        wraps = [n for n in body_nodes if n.get('k') == 'MCall' and n['n'] in ('wrapping_add', 'wrapping_sub', 'wrapping_mul') and uint.tymax(fn.ty(n['r'])) is not None]
        overs = [n for n in body_nodes if n.get('k') == 'MCall' and n['n'] in ('overflowing_add', 'overflowing_sub', 'overflowing_mul')]
        if wraps:
            an = uint.Analysis(F, fn, consts=CONSTS)
            # operand intervals are re-evaluated in the final environment: sound for the straight-line kernels (single assignment), and
            # an operand the analysis cannot bound falls back to its type range
            for i, n in enumerate(wraps):
                nwrap += 1
                key = 'wrap:%s:%s#%d' % (fn.qual, n['n'], i)
                if (fn.name, n['n']) in INTENDED_WRAP:
                    ck.ob(rid, key, True, 'intended wrap: ' + INTENDED_WRAP[(fn.name, n['n'])], n.get('s'))
                    continue
                m = uint.tymax(fn.ty(n['r']))
                a = an.ev(n['r'])
                b = an.ev(n['a'][0]) if n.get('a') else None
                a = a if isinstance(a, tuple) else (0, m)
                b = b if isinstance(b, tuple) else (0, m)
                if n['n'] == 'wrapping_add':
                    ok = a[1] + b[1] <= m
                elif n['n'] == 'wrapping_mul':
                    ok = a[1] * b[1] <= m
                else:
                    ok = a[0] >= b[1]
                ck.ob(rid, key, ok, 'operands in [%#x..%#x] and [%#x..%#x]: cannot leave the type range' % (a[0], a[1], b[0], b[1]) if ok else
                      'CARRY DISCARDED: %s applies %s to operands that can reach %#x and %#x: the result can leave the %s range and the wrap-around is thrown away, so for those operands the '
                      'multi-limb value (and the residue reduced from it) is off by 2^%d' % (fn.qual, n['n'], a[1], b[1], fn.ty(n['r']), (m + 1).bit_length() - 1), n.get('s'))
        if overs:
            # the Let that destructures each overflowing_* call
            lets = {id(s_['i']): s_ for s_ in body_nodes if s_.get('k') == 'Let' and 'i' in s_}
            reads = {}
            for x in body_nodes:
                if x.get('k') == 'Local':
                    reads[x['id']] = reads.get(x['id'], 0) + 1
            for i, n in enumerate(overs):
                nover += 1
                key = 'flag:%s:%s#%d' % (fn.qual, n['n'], i)
                st = lets.get(id(n))
                ok, why = False, 'the result tuple is not destructured by a let'
                if st is not None and st['p'].get('k') == 'PTuple' and len(st['p']['a']) == 2:
                    q = st['p']['a'][1]
                    if q.get('k') == 'Bind':
                        ok = reads.get(q['id'], 0) > 0
                        why = 'overflow flag `%s` is read' % q.get('n', '?') if ok else 'overflow flag `%s` is never read' % q.get('n', '?')
                    else:
                        why = 'overflow flag is discarded by the pattern'
                ck.ob(rid, key, ok, why if ok else 'CARRY DISCARDED: %s: %s of %s - a carry / borrow out of this limb is lost' % (fn.qual, why, n['n']), n.get('s'))
    ck.floor(rid, 'overflowing_* sites in the kernels', nover, floor_over)
    return nwrap, nover


def run(F, ck, tier):
    E = ob.Engine(F, ck)
    ck.rule('R14.2', 'unchecked preconditions are discharged at every call site (interval analysis) / constant arguments are canonical')
    ck.rule('R14.3', 'inverse_2exp shortcut threshold is CHARACTERISTIC_TWO_ADICITY')
    nsites = 0
    for fn in sorted(F.fns.values(), key=lambda f: f.d):
        if fn.crate != 'plonky2_field':
            continue
        has = any(x.get('k') == 'Call' and parse_path(callee(x) or '')[1] == 'add_no_canonicalize_trashing_input' for x in walk(fn.body))
        if not has:
            continue
        found = []

        def on_call(an, n, nm, args, found=found):
            if nm == 'add_no_canonicalize_trashing_input' and len(args) == 2:
                found.append((n, args))
        uint.Analysis(F, fn, consts=CONSTS, on_call=on_call)
        for i, (n, args) in enumerate(found):
            nsites += 1
            a, b = args
            key = 'precondition:add_no_canonicalize:%s#%d' % (fn.qual, i)
            if a is None or b is None or isinstance(a, list) or isinstance(b, list):
                ck.ob('R14.2', key, False, 'operand interval unknown at %s' % fn.qual, n.get('s'))
                continue
            ok = a[1] + b[1] < 2 ** 64 + ORDER
            ck.ob('R14.2', key, ok, 'x <= %#x, y <= %#x: x + y < 2^64 + ORDER' % (a[1], b[1]) if ok else
                  'UNCHECKED PRECONDITION VIOLATED: %s calls add_no_canonicalize_trashing_input with x <= %#x and y <= %#x; x + y can reach %#x >= 2^64 + ORDER, for which the result is a wrong residue (release) or an overflow panic (debug)' % (fn.qual, a[1], b[1], a[1] + b[1]), n.get('s'))
    ck.floor('R14.2', 'call sites of add_no_canonicalize_trashing_input', nsites, 3)
    # canonical-constant call sites
    ncan = 0
    for fn in F.fns.values():
        if fn.crate not in ('plonky2_field', 'plonky2', 'starky'):
            continue
        for n in walk(fn.body):
            if n.get('k') == 'MCall' and n['n'] in ('add_canonical_u64', 'sub_canonical_u64'):
                # skip the delegating impls inside the field crate (their own argument is the contract)
                if fn.name in ('add_canonical_u64', 'sub_canonical_u64'):
                    continue
                ncan += 1
                a = n['a'][0]
                ok = False
                why = ''
                if a.get('k') == 'Lit':
                    ok = int(a['v']) < ORDER
                    why = 'literal %s' % a['v']
                else:
                    # element of a const table / a local bound from one: all literals of the table must be < ORDER
                    from .facts import pat_binds

                    def table_of(expr):
                        for x in walk(expr):
                            if x.get('k') == 'Index':
                                b = x['e']
                                while b.get('k') in ('Ref', 'Un', 'Field'):
                                    b = b['e']
                                if b.get('k') == 'Def' and b.get('dk', '').startswith(('AssocConst', 'Const', 'Static')):
                                    return b['d']
                        return None
                    tab = table_of(a)
                    if tab is None and a.get('k') == 'Local':
                        for s_ in walk(fn.body):
                            if s_.get('k') == 'Let' and 'i' in s_ and any(b.get('id') == a['id'] for b in pat_binds(s_['p'])):
                                tab = table_of(s_['i']) or tab
                    if tab is not None:
                        name = tab.split('::')[-1]
                        lits = []
                        for g in F.fns.values():
                            if g.name == name and g.raw['dk'].startswith(('AssocConst', 'Const', 'Static')):
                                lits += [int(x['v']) for x in walk(g.body) if x.get('k') == 'Lit' and x.get('lk') == 'int']
                        big = [v for v in lits if v >= ORDER]
                        ok = bool(lits) and not big
                        why = 'table %s: %d literals, max %#x' % (name, len(lits), max(lits) if lits else 0)
                    else:
                        why = 'argument is neither a literal nor an element of a constant table'
                ck.ob('R14.2', 'canonical-arg:%s:%s' % (fn.qual, n['n']), ok, why if ok else '%s passes a possibly non-canonical value to %s (%s): its contract requires rhs < ORDER' % (fn.qual, n['n'], why), n.get('s'))
    ck.floor('R14.2', 'call sites of add/sub_canonical_u64', ncan, 4)
    # R14.3
    inv = [f for f in F.find('Field::inverse_2exp', crate='plonky2_field')]
    if len(inv) != 1:
        ck.ob('R14.3', 'anchor', False, 'ANCHOR-MISSING Field::inverse_2exp')
    else:
        names = []
        for n in walk(inv[0].body):
            if n.get('k') == 'If':
                for x in walk(n['c']):
                    if x.get('k') == 'Def' and 'ADICITY' in x.get('d', ''):
                        names.append(x['d'].split('::')[-1])
        ok = 'CHARACTERISTIC_TWO_ADICITY' in names and 'TWO_ADICITY' not in names
        ck.ob('R14.3', 'inverse_2exp.threshold', ok, 'exp is compared with CHARACTERISTIC_TWO_ADICITY' if ok else
              'inverse_2exp compares exp with %s: the exact-shift shortcut p - (p-1)/2^exp is only valid while 2^exp divides char(F) - 1; extension fields have TWO_ADICITY > CHARACTERISTIC_TWO_ADICITY' % names, '%s:%d' % (inv[0].file, inv[0].line))
    # R14.4 value tests never look at the raw representation
    ck.rule('R14.4', 'no comparison on the raw representation `.0` of a GoldilocksField in the field crate outside `assume(..)` optimiser hints and constant assertions: zero / equality tests go through is_zero / PartialEq / to_canonical_u64, which canonicalise')
    from .facts import walk as _walk
    nraw = 0
    for fn in sorted(F.fns.values(), key=lambda f: f.qual):
        if fn.crate != 'plonky2_field' or fn.body is None:
            continue
        # nodes that are arguments of assume(..)
        hinted = set()
        for x in _walk(fn.body):
            if x.get('k') == 'Call' and (x['f'].get('d') or '').split('::')[-1] in ('assume', 'assert_unchecked'):
                for a in x['a']:
                    hinted |= {id(y) for y in _walk(a)}
        for n in _walk(fn.body):
            if n.get('k') != 'Bin' or n['op'] not in ('Eq', 'Ne', 'Lt', 'Le', 'Gt', 'Ge'):
                continue
            raw = False
            for side in (n['l'], n['r']):
                x = side
                while x.get('k') in ('Ref', 'Un', 'Cast'):
                    x = x['e']
                if x.get('k') == 'Field' and x.get('n') == '0' and (fn.ty(x['e']) or '').replace('&', '').strip().endswith('GoldilocksField'):
                    raw = True
            if not raw:
                continue
            nraw += 1
            ok = id(n) in hinted or fn.qual == 'ASSERT' or fn.name.isupper()
            ck.ob('R14.4', 'raw-compare:%s:%s' % (fn.qual, n['op']), ok, 'optimiser hint / constant assertion' if ok else
                  '%s compares the raw representation `.0` of a field element (%s): a non-canonical representative of the same value (e.g. ORDER for zero) takes the other branch' % (fn.qual, n['op']), n.get('s'))
    ck.floor('R14.4', 'raw-representation comparisons seen (hints and constant assertions)', nraw, 5)
    packed_canonical_operand(F, ck)
    lost_carry(F, ck, 'R14.6', 8)
    ck.decided += ['add_no_canonicalize_trashing_input precondition holds at its call sites', 'canonical constants at add/sub_canonical_u64 call sites', 'inverse_2exp threshold']
    ck.undecided += ['that any operator returns the correct residue (numeric)', 'the reduce160 magnitude bound at its 11 call sites (needs a 160-bit relational domain; not built)', 'extension-field axioms, Frobenius, batch inversion', 'packed AVX2/AVX-512 lanes', 'the assume() hints in Add/Sub']
    return 'Decides only three narrow structural clauses of C14 (interval discharge of one unchecked precondition, canonical constants, one threshold constant). The property proper - exactness on all operands - is numeric and is not decided.'
