"""Obligations of Merkle path verification (native and in-circuit)."""
NATIVE = [
    dict(id='merkle.walk', fn='hash::merkle_proofs::verify_batch_merkle_proof_to_cap', free=True, kind='assign', var='current_digest',
         src=['c:two_to_one', 'F:MerkleProof.siblings', 'c:hash_or_noop', 'p:leaf_data'],
         ctx={'loop': ['F:MerkleProof.siblings']}, whole=True, why='every sibling is hashed in, on the side given by the index bit'),
    dict(id='merkle.final', fn='hash::merkle_proofs::verify_batch_merkle_proof_to_cap', free=True, kind='guard',
         src=['c:two_to_one', 'c:hash_or_noop', 'p:leaf_data', 'F:MerkleProof.siblings', 'p:merkle_cap', 'p:leaf_index'],
         ctx={'noloop': True, 'uncond': True}, why='the digest reached must equal the cap entry selected by the remaining index bits'),
    dict(id='merkle.delegate', fn='hash::merkle_proofs::verify_merkle_proof_to_cap', free=True, kind='ret',
         src=['c:verify_batch_merkle_proof_to_cap', 'p:leaf_data', 'p:leaf_index', 'p:merkle_cap', 'p:proof'], why='single-leaf verification delegates every argument'),
]
CIRCUIT = [
    dict(id='merkle.final.circuit', twin='merkle.final', fn='CircuitBuilder::verify_merkle_proof_to_cap_with_cap_index', kind='sink', callee=['connect'],
         src=['c:random_access', 'p:cap_index', 'p:merkle_cap', 'c:hash_or_noop', 'p:leaf_data', 'c:permute_swapped', 'F:MerkleProofTarget.siblings', 'p:leaf_index_bits'],
         ctx={'uncond': True, 'loop': []}, why='every element of the final state is connected to the selected cap entry, unconditionally'),
    dict(id='merkle.walk.circuit', twin='merkle.walk', fn='CircuitBuilder::verify_merkle_proof_to_cap_with_cap_index', kind='call', callee='permute_swapped',
         src=['F:MerkleProofTarget.siblings', 'p:leaf_index_bits', 'c:hash_or_noop', 'p:leaf_data'],
         ctx={'uncond': True, 'loop': ['F:MerkleProofTarget.siblings', 'p:leaf_index_bits']}, whole=True, why='every sibling is absorbed with the swap bit of its level'),
    dict(id='merkle.final.circuit.multi', twin='merkle.final', fn='CircuitBuilder::verify_merkle_proof_to_cap_with_cap_indices', kind='sink', callee=['conditional_assert_eq'],
         src=['p:condition', 'c:random_access', 'p:cap_index', 'p:n_index', 'p:merkle_cap', 'c:hash_or_noop', 'p:leaf_data', 'c:permute_swapped', 'F:MerkleProofTarget.siblings', 'p:leaf_index_bits'],
         ctx={'uncond': True, 'loop': []}, why='state at the selected height equals the selected cap entry whenever the step is active'),
    dict(id='merkle.final.circuit.batch', twin='merkle.final', fn='CircuitBuilder::verify_batch_merkle_proof_to_cap_with_cap_index', kind='sink', callee=['connect'],
         src=['c:random_access', 'p:cap_index', 'p:merkle_cap', 'c:hash_or_noop', 'p:leaf_data', 'c:permute_swapped', 'F:MerkleProofTarget.siblings', 'p:leaf_index_bits'],
         ctx={'uncond': True, 'loop': []}, why='batch tree: final state connected to the cap entry'),
    dict(id='merkle.delegate.circuit', twin='merkle.delegate', fn='CircuitBuilder::verify_merkle_proof_to_cap', kind='call', callee='verify_merkle_proof_to_cap_with_cap_index',
         src=['p:leaf_data', 'p:leaf_index_bits', 'p:merkle_cap', 'p:proof', 'c:le_sum'], ctx={'uncond': True}, why='cap index = remaining high bits'),
]
