"""C10 - STARK lookups and cross-table lookups hold iff the looked-up values are present (structural clauses).

R10.1 native / circuit evaluator agreement: equal consumer-call skeletons (sequence and loop/branch nest of constraint,
      constraint_first_row, constraint_last_row, constraint_transition, helper-column evaluation)
R10.2 CTL equality guard (and its circuit twin) inside the loop over challenges inside the loop over CTLs
R10.4 argument skeleton: each evaluator has the shape of the argument it implements (logUp: per lookup and challenge, helper
      constraints, Z anchored on the first row, one ALL-ROWS update constraint; CTL: per CtlCheckVars, helper constraints, one
      last-row and one transition constraint in every branch) with the right data feeding each
"""
from . import ob, flow, skeleton
from .facts import pat_binds, callee, parse_path, walk

CONS = {'constraint': 'all', 'constraint_first_row': 'first_row', 'constraint_last_row': 'last_row', 'constraint_transition': 'transition'}


def classify(n):
    c = callee(n) or ''
    o, nm, _ = parse_path(c)
    if nm in CONS and o in ('ConstraintConsumer', 'RecursiveConstraintConsumer'):
        return CONS[nm]
    if nm and nm.startswith('eval_helper_columns'):
        return 'helper'
    return None


PAIRS = [('eval_packed_lookups_generic', 'eval_ext_lookups_circuit'), ('eval_cross_table_lookup_checks', 'eval_cross_table_lookup_checks_circuit'), ('eval_helper_columns', 'eval_helper_columns_circuit')]
# reviewed divergence O1: unreachable branch (no helper columns, two looking columns) of the circuit CTL evaluator emits last_row twice
REVIEWED_DIVERGENCE = {
    ('eval_cross_table_lookup_checks', 'eval_cross_table_lookup_checks_circuit'):
        (['(', 'helper', 'last_row', 'last_row', ')*'],
         'branch "no helper columns and more than one looking column": the circuit emits constraint_last_row twice where the native evaluator emits last_row + transition; the branch is unreachable through '
         'num_ctl_helpers_zs_all / partial_sums, which create helper columns whenever a table appears more than once (observation O1)'),
}
EXPECT = {
    'eval_packed_lookups_generic': '((helper first_row all)*)*',
    'eval_ext_lookups_circuit': '((helper first_row all)*)*',
}


def run(F, ck, tier):
    E = ob.Engine(F, ck)
    ck.rule('R10.1', 'native and circuit lookup / CTL evaluators have the same consumer-call skeleton')
    ck.rule('R10.2', 'verify_cross_table_lookups compares looking sum and looked opening for every challenge of every CTL; circuit twin connects the same pair')
    ck.rule('R10.4', 'each evaluator has the skeleton of its argument and feeds each constraint from the right columns')
    fns = {}
    for a, b in PAIRS:
        for q in (a, b):
            c = F.find(q, crate='starky')
            if len(c) != 1:
                ck.ob('R10.1', 'anchor:' + q, False, 'ANCHOR-MISSING ' + q)
            else:
                fns[q] = c[0]
    for a, b in PAIRS:
        if a not in fns or b not in fns:
            continue
        ta = skeleton.arms_tree(fns[a].body, classify)
        tb = skeleton.arms_tree(fns[b].body, classify)
        sa = sorted(map(tuple, skeleton.flatten_arms(ta)))
        sb = sorted(map(tuple, skeleton.flatten_arms(tb)))
        key = 'skeleton:%s~%s' % (a, b)
        if sa == sb:
            ck.ob('R10.1', key, True, 'skeleton %s' % skeleton.render_arms(ta), '%s:%d' % (fns[a].file, fns[a].line))
            continue
        only_a = [s for s in sa if s not in sb]
        only_b = [s for s in sb if s not in sa]
        rv = REVIEWED_DIVERGENCE.get((a, b))
        if rv and len(only_b) == 1 and list(only_b[0]) == rv[0] and len(only_a) <= 1:
            ck.ob('R10.1', key, True, 'reviewed divergence: ' + rv[1], '%s:%d' % (fns[b].file, fns[b].line))
            ck.observe('O1: ' + rv[1])
            continue
        ck.ob('R10.1', key, False, 'SKELETON MISMATCH: %s emits %s but %s emits %s (paths only in native: %s; only in circuit: %s)' % (
            a, skeleton.render_arms(ta), b, skeleton.render_arms(tb), [' '.join(x) for x in only_a][:3], [' '.join(x) for x in only_b][:3]), '%s:%d' % (fns[b].file, fns[b].line))
    # ---------------------------------------------------------------- R10.4 argument skeletons
    for q, want in EXPECT.items():
        if q not in fns:
            continue
        got = skeleton.render_arms(skeleton.arms_tree(fns[q].body, classify))
        ck.ob('R10.4', 'logup.shape:' + q, got == want, 'per lookup, per challenge: helper columns, Z(first row) = 0, all-rows update' if got == want else
              'logUp evaluator %s has skeleton %s, expected %s: the running sum must be anchored on the first row and updated by a constraint on ALL rows (incl. the wrap-around last->first), otherwise the total is not forced to zero' % (q, got, want), '%s:%d' % (fns[q].file, fns[q].line))
    for q in ('eval_cross_table_lookup_checks', 'eval_cross_table_lookup_checks_circuit'):
        if q not in fns:
            continue
        t = skeleton.arms_tree(fns[q].body, classify)
        paths = skeleton.flatten_arms(t)
        bad = []
        for p in paths:
            inner = [x for x in p if x not in ('(', ')*')]
            if inner.count('helper') != 1 or inner.count('last_row') < 1 or (inner.count('last_row') + inner.count('transition')) != 2:
                bad.append(' '.join(p))
        # the reviewed O1 path has two last_row and no transition in the circuit version only
        strict_bad = [b for b in bad]
        okpaths = [p for p in paths if [x for x in p if x not in ('(', ')*')] in (['helper', 'last_row', 'transition'],)]
        n_ok = len(okpaths)
        need = 3 if q.endswith('_circuit') is False else 2
        ck.ob('R10.4', 'ctl.shape:' + q, not strict_bad and n_ok >= need and len(paths) == 3, '%d branches, each: helper, one last-row anchor, one transition' % len(paths) if (not strict_bad and n_ok >= need and len(paths) == 3) else
              'CTL evaluator %s: branch skeletons %s - every branch must anchor Z on the last row and constrain the transition' % (q, [' '.join(p) for p in paths]), '%s:%d' % (fns[q].file, fns[q].line))
    # data feeding (native + circuit)
    E.check('R10.4', dict(id='logup.first_row', fn='starky::lookup::eval_packed_lookups_generic', crate='starky', kind='call', callee='constraint_first_row',
                          src=['F:LookupCheckVars.local_values'], ctx={'loop': ['p:lookups']}, why='Z on the first row'))
    E.check('R10.4', dict(id='logup.update', fn='starky::lookup::eval_packed_lookups_generic', crate='starky', kind='call', callee='constraint',
                          src=['F:LookupCheckVars.local_values', 'F:LookupCheckVars.next_values', 'F:Lookup.table_column', 'F:Lookup.frequencies_column', 'F:LookupCheckVars.challenges'],
                          ctx={'loop': ['p:lookups']}, whole=True, why='(next_z - z) * (table + challenge) = helpers*(table+challenge) - frequencies on every row'))
    E.check('R10.4', dict(id='logup.helpers', fn='starky::lookup::eval_packed_lookups_generic', crate='starky', kind='call', callee='eval_helper_columns',
                          src=['F:Lookup.filter_columns', 'F:Lookup.columns', 'F:LookupCheckVars.local_values', 'F:LookupCheckVars.challenges', 'c:eval_with_next', 'p:yield_constr'],
                          ctx={'loop': ['p:lookups']}, whole=True, why='helper columns batch the inverses of the (filtered) looking columns incl. next-row parts'))
    E.check('R10.4', dict(id='logup.first_row.circuit', fn='starky::lookup::eval_ext_lookups_circuit', crate='starky', kind='call', callee='constraint_first_row',
                          src=['F:LookupCheckVarsTarget.local_values'], why='Z on the first row (circuit)'))
    E.check('R10.4', dict(id='logup.update.circuit', fn='starky::lookup::eval_ext_lookups_circuit', crate='starky', kind='call', callee='constraint',
                          src=['F:LookupCheckVarsTarget.local_values', 'F:LookupCheckVarsTarget.next_values', 'F:Lookup.table_column', 'F:Lookup.frequencies_column', 'F:LookupCheckVarsTarget.challenges'],
                          why='update constraint (circuit)'))
    E.check('R10.4', dict(id='logup.helpers.circuit', fn='starky::lookup::eval_ext_lookups_circuit', crate='starky', kind='call', callee='eval_helper_columns_circuit',
                          src=['F:Lookup.filter_columns', 'F:Lookup.columns', 'F:LookupCheckVarsTarget.local_values', 'F:LookupCheckVarsTarget.challenges', 'c:eval_with_next_circuit'],
                          why='helper columns (circuit) evaluate looking columns with their next-row parts, like the native evaluator'))
    for q, ty in (('eval_cross_table_lookup_checks', 'CtlCheckVars'), ('eval_cross_table_lookup_checks_circuit', 'CtlCheckVarsTarget')):
        E.check('R10.4', dict(id='ctl.last_row:' + q, fn='starky::cross_table_lookup::' + q, crate='starky', kind='call', callee='constraint_last_row',
                              src=['F:%s.local_z' % ty, 'F:%s.helper_columns|c:combine|c:combine_circuit' % ty], ctx={'loop': ['p:ctl_vars']}, whole=True, why='Z anchored on the last row'))
        E.check('R10.4', dict(id='ctl.transition:' + q, fn='starky::cross_table_lookup::' + q, crate='starky', kind='call', callee='constraint_transition',
                              src=['F:%s.local_z' % ty, 'F:%s.next_z' % ty], ctx={'loop': ['p:ctl_vars']}, whole=True, why='running sum transition'))
    # ---------------------------------------------------------------- R10.2
    E.check('R10.2', dict(id='ctl.equality', fn='starky::cross_table_lookup::verify_cross_table_lookups', crate='starky', kind='guard',
                          src=['p:ctl_zs_first', 'F:CrossTableLookup.looking_tables', 'F:CrossTableLookup.looked_table', 'p:ctl_extra_looking_sums', 'c:sum'],
                          ctx={'uncond': True, 'loop': ['F:StarkConfig.num_challenges']}, whole=True, why='sum of looking first-row openings (+extra) equals the looked opening, for every challenge of every CTL'))
    E.check('R10.2', dict(id='ctl.equality.circuit', fn='starky::cross_table_lookup::verify_cross_table_lookups_circuit', crate='starky', kind='sink', callee=['connect'],
                          src=['p:ctl_zs_first', 'F:CrossTableLookup.looking_tables', 'F:CrossTableLookup.looked_table', 'p:ctl_extra_looking_sums', 'c:add_many'],
                          ctx={'uncond': True, 'loop': ['F:StarkConfig.num_challenges']}, whole=True, why='circuit twin connects the same pair'))
    # extra looking sums are keyed by the POSITION of the cross-table lookup, not by a table index (both are usize)
    for q in ('verify_cross_table_lookups', 'verify_cross_table_lookups_circuit'):
        fn = F.one('starky::cross_table_lookup::' + q, crate='starky')
        if fn is None:
            ck.ob('R10.2', 'anchor:' + q, False, 'ANCHOR-MISSING ' + q)
            continue
        fl = flow.Flow(F, fn)
        gets = [e for e in fl.events if e.kind == 'call' and e.name == 'get' and e.recv is not None and flow.has_param(flow.flat(e.recv), 'ctl_extra_looking_sums')]
        bad = [e for e in gets if any(a.startswith('F:CrossTableLookup.') or a.startswith('F:TableWithColumns.') for e_ in [e] for v in e_.args for a in flow.flat(v))]
        ck.ob('R10.2', 'ctl.extra_key:' + q, bool(gets) and not bad, 'extra looking sums are fetched by the position of the lookup' if gets and not bad else
              ('%s fetches the extra looking sums with a key taken from the lookup\'s tables (a table index) instead of the lookup\'s position: declared extra values are applied to the wrong lookup or ignored' % q) if gets else
              '%s no longer consults ctl_extra_looking_sums' % q, (bad or gets)[0].loc() if (bad or gets) else '%s:%d' % (fn.file, fn.line))
    # ---------------------------------------------------------------- R10.9
    typed_index_siblings(F, ck)
    # ---------------------------------------------------------------- R10.8
    default_targets(F, ck, 'R10.8')
    # ---------------------------------------------------------------- R10.6
    adjacent_grouping(F, ck)
    # ---------------------------------------------------------------- R10.7
    ck.rule('R10.7', 'the lookup / CTL evaluators and helper-column builders iterate whole sequences: no element-dropping adaptor (chunks_exact, take, skip, step_by, filter, ...) - a dropped trailing batch leaves its helper column unconstrained')
    from .c04 import DROPPING
    from .facts import walk as _walk
    nfn = 0
    for q in ('eval_helper_columns', 'eval_helper_columns_circuit', 'eval_packed_lookups_generic', 'eval_ext_lookups_circuit', 'eval_cross_table_lookup_checks',
              'eval_cross_table_lookup_checks_circuit', 'verify_cross_table_lookups', 'verify_cross_table_lookups_circuit', 'get_helper_cols', 'partial_sums', 'lookup_helper_columns'):
        for fn in F.find(q, crate='starky'):
            if fn.body is None:
                continue
            nfn += 1
            bad = sorted({x['n'] for x in _walk(fn.body) if x.get('k') == 'MCall' and x.get('n') in DROPPING - {'filter', 'pop', 'first', 'last'}})
            ck.ob('R10.7', 'whole:' + fn.qual, not bad, 'iterates whole sequences' if not bad else
                  'ELEMENTS DROPPED: %s uses %s: the trailing (partial) batch of looking columns is skipped, so its helper column / filter is summed by the prover but never constrained' % (fn.qual, ','.join(bad)), '%s:%d' % (fn.file, fn.line))
    ck.floor('R10.7', 'lookup / CTL evaluators and helper builders examined', nfn, 9)
    # ---------------------------------------------------------------- R10.10 helper-column constraint: the one-pair arm is the two-pair arm with the second pair absent
    ck.rule('R10.10', 'in eval_helper_columns the constraint for a batch of ONE pair is the constraint for TWO pairs with the second pair absent (filter 0, combination 1), as polynomials: combin * h - f. '
                      'Any other form (e.g. (combin * h - 1) * f) leaves the helper value free on rows where the filter is off, and that value enters the running sum')
    from . import poly as _poly
    eh = [f for f in F.find('eval_helper_columns', crate='starky') if f.body is not None and f.name == 'eval_helper_columns']
    if len(eh) != 1:
        ck.ob('R10.10', 'anchor', False, 'ANCHOR-MISSING starky::lookup::eval_helper_columns (%d)' % len(eh))
    else:
        fn = eh[0]
        E_ = _poly.Ev(F)
        arms = {}
        hid = None
        for x in walk(fn.body):
            if x.get('k') == 'For':
                for b in pat_binds(x['p']):
                    if b['n'] == 'h':
                        hid = b['id']
            if x.get('k') == 'Match':
                for a in x.get('arms', []):
                    p = a.get('p') or {}
                    import re as _re
                    m_ = _re.search(r'Pu128\((\d+)\)|^(\d+)$', str(p.get('v'))) if p.get('k') in ('Lit', 'PLit') else None
                    lit = int(m_.group(1) or m_.group(2)) if m_ else None
                    if lit in (1, 2):
                        arms[lit] = a['b']

        def arm_poly(block, absent_second):
            env = {}
            if hid is not None:
                env[hid] = _poly.sym('h')
            nc = nf = 0
            res = None
            for st in block.get('st', []):
                if st.get('k') == 'Let' and 'i' in st and st['p'].get('k') == 'Bind':
                    calls = [y.get('n') for y in walk(st['i']) if y.get('k') == 'MCall']
                    if 'combine' in calls:
                        env[st['p']['id']] = _poly.const(1) if (absent_second and nc == 1) else _poly.sym('c%d' % nc)
                        nc += 1
                    elif 'eval_filter' in calls:
                        env[st['p']['id']] = {} if (absent_second and nf == 1) else _poly.sym('f%d' % nf)
                        nf += 1
                for y in walk(st):
                    if y.get('k') == 'MCall' and y.get('n') == 'constraint' and y.get('a'):
                        try:
                            res = E_.ev(fn, y['a'][-1], env, 2)
                        except _poly.Unknown:
                            res = None
            return res
        if 1 not in arms or 2 not in arms:
            ck.observe('R10.10 not applicable: eval_helper_columns no longer matches on batch lengths 1 and 2 with literal arms')
            ck.ob('R10.10', 'helper.one-pair', True, 'not decided (no literal arms)')
        else:
            p1 = arm_poly(arms[1], False)
            p2 = arm_poly(arms[2], True)
            okh = p1 is not None and p2 is not None and p1 == p2
            ck.ob('R10.10', 'helper.one-pair', okh, 'one-pair constraint = %s = two-pair constraint with the second pair absent' % _poly.show(p1) if okh else
                  'HELPER COLUMN FREE WHERE THE FILTER IS OFF: the one-pair arm of eval_helper_columns constrains %s, the two-pair arm with its second pair absent constrains %s: '
                  'with a different form the helper value is unconstrained on rows whose filter is 0 and still enters the running sum - a prover can add any amount to a lookup' % (
                      _poly.show(p1) if p1 is not None else '(not a polynomial in combin, h, f)', _poly.show(p2) if p2 is not None else '(not evaluable)'), '%s:%d' % (fn.file, fn.line))
    ck.decided += ['native/circuit evaluator skeleton agreement', 'logUp and CTL evaluators have the shape of their argument and are fed by the right columns', 'CTL equality check and twin']
    ck.undecided += ['correctness of the log-derivative argument (algebra)', 'multiset equality (behavioural)', 'challenge provenance in multi-table callers outside this repository']
    return 'Decides structural necessary conditions of C10: evaluator skeletons (sibling agreement and argument shape), data feeding, CTL equality guard and twin.'


ADJACENT_OPS = {'dedup', 'dedup_by', 'dedup_by_key', 'group_by', 'chunk_by'}
# adjacency-based operations whose input is in key order by construction (reviewed)
SORTED_BY_CONSTRUCTION = {
    ('CircuitBuilder::try_build_with_options', 'dedup'): 'generator indices are pushed while iterating generators in increasing index order, so equal indices are adjacent',
}


def adjacent_grouping(F, ck):
    from .facts import walk
    """R10.6: `dedup` / `group_by` treat only ADJACENT equal keys as one class.  Everywhere else in the workspace the sequence is sorted
    first; a site that is not sorted (and not reviewed as ordered by construction) splits one class into several when equal keys
    are not adjacent - for the CTL helper columns: a looking table that occurs twice, separated by another table."""
    ck.rule('R10.6', 'adjacency-based grouping (dedup / group_by) is applied to a sequence that was sorted by the same function before, or is ordered by construction (reviewed)')
    n = 0
    for fn in sorted(F.fns.values(), key=lambda f: f.qual):
        if fn.crate not in ('plonky2', 'starky') or fn.body is None:
            continue
        nodes = list(walk(fn.body))
        idx = {id(x): i for i, x in enumerate(nodes)}
        for x in nodes:
            if x.get('k') != 'MCall' or x.get('n') not in ADJACENT_OPS:
                continue
            n += 1
            # receiver: a local (sorted earlier by a `sort*` call on the same local), or a chain containing `sorted*`
            chain = []
            r = x['r']
            root = None
            while isinstance(r, dict):
                if r.get('k') == 'MCall':
                    chain.append(r['n'])
                    r = r['r']
                elif r.get('k') in ('Ref', 'Un', 'Field', 'Cast'):
                    r = r['e']
                elif r.get('k') == 'Local':
                    root = r
                    break
                else:
                    break
            ok = any(c.startswith('sorted') for c in chain)
            if not ok and root is not None:
                for y in nodes:
                    if y.get('k') == 'MCall' and y.get('n', '').startswith('sort') and idx[id(y)] < idx[id(x)]:
                        ry = y['r']
                        while isinstance(ry, dict) and ry.get('k') in ('Ref', 'Un', 'Field', 'Cast'):
                            ry = ry['e']
                        if isinstance(ry, dict) and ry.get('k') == 'Local' and ry['id'] == root['id']:
                            ok = True
            key = 'adjacent:%s:%s' % (fn.qual, x['n'])
            if not ok and (fn.qual, x['n']) in SORTED_BY_CONSTRUCTION:
                ck.ob('R10.6', key, True, 'reviewed: ' + SORTED_BY_CONSTRUCTION[(fn.qual, x['n'])], x.get('s'))
                continue
            ck.ob('R10.6', key, ok, 'input sorted before the adjacency-based %s' % x['n'] if ok else
                  'UNSORTED ADJACENT GROUPING: %s applies %s() to a sequence that is not sorted: equal keys that are not adjacent form separate groups (for cross-table lookups: a looking table listed twice with another table in between '
                  'gets two sets of helper columns while every other routine treats all entries of a table as one group - such a system cannot be proved)' % (fn.qual, x['n']), x.get('s'))
    ck.floor('R10.6', 'adjacency-based grouping sites', n, 4)


TARGET_TYPES = ('Target', 'BoolTarget', 'ExtensionTarget', 'HashOutTarget')


def default_targets(F, ck, rule):
    """`Target::default()` is `VirtualTarget { index: 0 }` - an arbitrary wire of the circuit, NOT the constant zero.  Outside the
    derived `Default` impls of generator structs (placeholders that deserialisation overwrites) no circuit-building code may obtain a
    target from `default()` / `unwrap_or_default()`: the value it then adds or connects is whatever the first virtual target holds."""
    from .facts import walk, callee, parse_path, ty_adt
    ck.rule(rule, 'no Target / BoolTarget / ExtensionTarget is produced by default() or unwrap_or_default() outside derived Default impls: a default target is virtual target 0, not the constant zero')
    nimpl = 0
    for fn in sorted(F.fns.values(), key=lambda f: f.qual):
        if fn.crate not in ('plonky2', 'starky') or fn.body is None:
            continue
        for n in walk(fn.body):
            if n.get('k') not in ('MCall', 'Call'):
                continue
            nm = parse_path(callee(n) or '')[1] or n.get('n')
            if nm not in ('unwrap_or_default', 'default'):
                continue
            t = (ty_adt(fn.ty(n) or '') or '')
            if t not in TARGET_TYPES:
                continue
            if fn.name == 'default':
                nimpl += 1
                continue
            ck.ob(rule, 'default-target:%s:%s' % (fn.qual, nm), False,
                  'ARBITRARY TARGET USED AS ZERO: %s obtains a %s from %s(): that is virtual target 0 of the circuit, whose value is whatever the circuit assigns to it - not the constant zero the native code (F::default()) uses' % (fn.qual, t, nm), n.get('s'))
    ck.ob(rule, 'default-target:none', True, 'only derived Default impls construct default targets (%d sites)' % nimpl)
    ck.floor(rule, 'default() target constructions inside derived Default impls (the matcher sees its positive examples)', nimpl, 8)


SIBLING_EVALUATORS = [('starky::lookup::eval_helper_columns', 'starky::lookup::eval_helper_columns_circuit'),
                      ('starky::cross_table_lookup::eval_cross_table_lookup_checks', 'starky::cross_table_lookup::eval_cross_table_lookup_checks_circuit'),
                      ('starky::lookup::eval_packed_lookups_generic', 'starky::lookup::eval_ext_lookups_circuit')]


def _typed_indices(F, fn):
    """multiset of (type of the indexed collection, normalised index) over a function body; loop / closure variables are L<depth>"""
    import collections
    from . import poly
    from .facts import kids, pat_binds
    E = poly.Ev(F)
    out = collections.Counter()

    def rec(n, depth, env):
        if not isinstance(n, dict):
            return
        kd = n.get('k')
        if kd == 'For':
            rec(n['it'], depth, env)
            e2 = dict(env)
            for b in pat_binds(n['p']):
                e2[b['id']] = poly.sym('L%d' % depth)
            rec(n['b'], depth + 1, e2)
            return
        if kd == 'Closure':
            e2 = dict(env)
            for p in n['p']:
                for b in pat_binds(p):
                    e2[b['id']] = poly.sym('L%d' % depth)
            rec(n['b'], depth + 1, e2)
            return
        if kd == 'Block':
            e2 = dict(env)
            for s_ in n['st']:
                rec(s_, depth, e2)
            if 'e' in n:
                rec(n['e'], depth, e2)
            return
        if kd == 'Index':
            i = n['i']
            if not (i.get('k') == 'Struct' and 'Range' in (i.get('d') or '')):
                bt = (fn.ty(n['e']) or '').replace('&', '').replace('mut ', '').strip()
                try:
                    ix = poly.show(E.ev(fn, i, env, 2))
                except poly.Unknown:
                    ix = '?'
                out[(bt, ix)] += 1
        for c in kids(n):
            rec(c, depth, env)
    rec(fn.body, 0, {})
    return out


def typed_index_siblings(F, ck):
    ck.rule('R10.9', 'native and in-circuit lookup / CTL evaluators index the collections they share (filters, columns - same element type on both sides) with the same multiset of index expressions')
    n = 0
    for qa, qb in SIBLING_EVALUATORS:
        fa, fb = F.one(qa, crate='starky'), F.one(qb, crate='starky')
        if fa is None or fb is None:
            ck.ob('R10.9', 'anchor:' + qa.split('::')[-1], False, 'ANCHOR-MISSING %s / %s' % (qa, qb))
            continue
        ta, tb = _typed_indices(F, fa), _typed_indices(F, fb)
        common = {t for t, _ in ta} & {t for t, _ in tb}
        a = {k: v for k, v in ta.items() if k[0] in common}
        b = {k: v for k, v in tb.items() if k[0] in common}
        n += len(a)
        ok = a == b
        ck.ob('R10.9', 'indices:%s' % fa.name, ok, 'shared collections indexed alike (%d index sites)' % sum(a.values()) if ok else
              'SIBLING DISAGREEMENT: %s and %s index a shared collection differently: native %s, circuit %s - e.g. the filter of the wrong looking column is applied in one of them, so the two evaluators constrain different polynomials' %
              (fa.name, fb.name, sorted((k, v) for k, v in a.items() if b.get(k) != v), sorted((k, v) for k, v in b.items() if a.get(k) != v)), '%s:%d' % (fb.file, fb.line))
    ck.floor('R10.9', 'typed index expressions compared', n, 4)
    # running counters (offsets into the flat list of helper / Z openings) are advanced at the same loop depth by both siblings
    import collections
    from .facts import kids as _kids

    def counters(fn):
        out = collections.Counter()

        def rec(n, depth):
            if not isinstance(n, dict):
                return
            if n.get('k') == 'AssignOp' and n['l'].get('k') == 'Local':
                out[(depth, n.get('op'))] += 1
            d2 = depth + 1 if n.get('k') in ('For', 'While', 'Loop') else depth
            for c in _kids(n):
                rec(c, d2)
        rec(fn.body, 0)
        return out
    pairs = list(SIBLING_EVALUATORS) + [('CtlCheckVars::from_proof', 'CtlCheckVarsTarget::from_proof')]
    m = 0
    for qa, qb in pairs:
        ca_ = [f for f in F.find(qa, crate='starky') if f.body is not None]
        cb_ = [f for f in F.find(qb, crate='starky') if f.body is not None]
        if len(ca_) != 1 or len(cb_) != 1:
            ck.ob('R10.9', 'anchor:counters:' + qa.split('::')[-1], False, 'ANCHOR-MISSING %s / %s' % (qa, qb))
            continue
        a, b = counters(ca_[0]), counters(cb_[0])
        m += sum(a.values())
        ok = a == b
        ck.ob('R10.9', 'counters:%s' % ca_[0].qual, ok, 'running counters advanced at the same loop depths (%s)' % dict(a) if ok else
              'SIBLING DISAGREEMENT: %s advances its running counters at (loop depth, op) %s but %s at %s: one of them reads the helper / Z openings of later challenges or lookups at wrong offsets' %
              (ca_[0].qual, sorted(a.items()), cb_[0].qual, sorted(b.items())), '%s:%d' % (ca_[0].file, ca_[0].line))
    ck.floor('R10.9', 'running-counter updates compared', m, 3)
