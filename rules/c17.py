"""C17 - binary encodings round-trip (structural clauses).

R17.1 grammar agreement: each reader/writer pair consumes/emits the same tree of byte-level primitives
R17.2 field order: the k-th item written comes from field f  <=>  the k-th item read ends up in field f
R17.3 writer coverage: a writer reads every field of the struct it serialises
R17.4 registries: every Gate / SimpleGenerator impl is registered, reader and writer dispatch enumerate the same types
      in the same order, generator ids are pairwise distinct
"""
from . import flow, grammar
from .facts import parse_path, walk, callee, callee_decl, strip_generics, ty_adt

# helper pairs that are asymmetric by design: the reason, and what restores symmetry
HELPER_ASYMMETRY = {
    'hash_vec': 'write_hash_vec emits a length prefix that read_hash_vec(length) expects its caller to have read (every caller does: the composite grammars agree)',
}
RECONSTRUCTED = {
    ('InterpolationGenerator', 'interpolation_domain'): ('new', 'recomputed from the gate (two-adic subgroup shifted by the coset) in InterpolationGenerator::new, which deserialize calls'),
}
PHANTOM = {'_phantom', '_phantom_data', '__', '_private'}


def trait_pairs(F):
    rd = {f.name: f for f in F.fns.values() if (f.raw.get('in_trait') or '').endswith('serialization::Read')}
    wr = {f.name: f for f in F.fns.values() if (f.raw.get('in_trait') or '').endswith('serialization::Write')}
    pairs = []
    for n in sorted(rd):
        w = 'write_' + n[5:]
        if n.startswith('read_') and w in wr:
            pairs.append((n[5:], rd[n], wr[w]))
    lonely = [n for n in rd if n.startswith('read_') and 'write_' + n[5:] not in wr and n != 'read_exact'] + \
             [n for n in wr if n.startswith('write_') and 'read_' + n[6:] not in rd and n != 'write_all']
    return pairs, lonely


def serde_pairs(F):
    ser = {}
    for f in F.fns.values():
        if f.crate in ('plonky2', 'starky') and f.name in ('serialize', 'deserialize') and '_serde' not in f.d:
            t = (f.trait or '').split('::')[-1]
            if t in ('Deserialize', 'Serialize'):
                continue
            ser.setdefault((f.owner, t), {})[f.name] = f
    return ser


def writer_fields(F, fn, roots, with_ctx=False):
    """ordered list of (event, set of first-level fields of the serialised value flowing into the write)"""
    fl = flow.Flow(F, fn, opaque=('Self',))
    out = []
    for e in fl.events:
        if e.kind == 'call' and e.name and (e.name.startswith('write_') or e.name == 'serialize'):
            def fields_of(v):
                r = set()
                for a in v:
                    if a.startswith('p:'):
                        seg = a[2:].replace('[]', '').split('.')
                        if seg[0] in roots and len(seg) > 1:
                            r.add(seg[1])
                return r
            argv = flow.EMPTY
            for a in e.args:
                argv = argv | flow.flat(a)
            # the value written: arguments only (the receiver is the byte sink)
            if e.name == 'serialize' and e.recv is not None:
                argv = argv | flow.flat(e.recv)
            fs = fields_of(argv)
            cond = flow.EMPTY
            for fr in e.ctx:
                if fr[0] == 'if':
                    cond = cond | flow.flat(fr[1])
            if with_ctx or not fs:
                fs = fs | fields_of(cond)
            out.append((e, fs))
    return out


def reader_fields(F, fn, adt_short):
    """ordered list of (event, field of the result struct that receives this read)"""
    def tagger(ev, idx):
        if ev.name and (ev.name.startswith('read_') or ev.name == 'deserialize'):
            return 'rd:%d' % idx
        return None
    inl = lambda c, d, ev: F.fns.get(c) if (c in F.fns and parse_path(c)[1] in ('new', 'new_from_config', 'new_unsafe', 'wire', 'from_range')) else None
    fl = flow.Flow(F, fn, inline=inl, depth=1, tagger=tagger, opaque=('Buffer', 'Self'))
    reads = [(i, e) for i, e in enumerate(fl.events) if e.kind == 'call' and not e.stack and e.name and (e.name.startswith('read_') or e.name == 'deserialize')]
    structs = [e for e in fl.events if e.kind == 'struct' and e.extra and e.extra[0] == adt_short]
    if not structs:
        return None
    st = structs[-1]
    ftags = {}
    for f, v in st.val.items():
        ftags[f] = sorted(int(a[3:]) for a in flow.flat(v) if a.startswith('rd:'))
    out = []
    for i, e in reads:
        cands = [(max(t), f) for f, t in ftags.items() if i in t]
        out.append((e, min(cands)[1] if cands else None))
    return out


def has_alt(g):
    for x in g:
        if x[0] == 'alt':
            return True
        if x[0] == 'loop' and has_alt(x[1]):
            return True
    return False


def struct_param(fn):
    """(param name, adt short) of the first non-self, non-buffer parameter whose type is a workspace struct"""
    for p in fn.params[1:]:
        t = fn.types[p['t']] if p.get('t') is not None else ''
        a = ty_adt(t)
        if p.get('k') == 'Bind' and a and a[:1].isupper() and a not in ('Vec', 'Option', 'CommonCircuitData', 'Buffer'):
            return p['n'], a
    return None, None


CMP = ('Lt', 'Le', 'Gt', 'Ge', 'Eq', 'Ne')
COUNT_READS = ('read_usize', 'read_u8', 'read_u16', 'read_u32', 'read_u64')


def _const_side(n):
    """an expression made of literals, constants and casts only (no local, no call on the stream)"""
    saw = False
    for x in walk(n):
        k = x.get('k')
        if k in ('Local', 'MCall', 'Field', 'Index'):
            return False
        if k == 'Call':
            return False
        if k in ('Lit', 'Def'):
            saw = True
    return saw


def _norm(n):
    if isinstance(n, dict):
        return {k: _norm(v) for k, v in n.items() if k not in ('s', 't', 'ta', 'id')}
    if isinstance(n, list):
        return [_norm(x) for x in n]
    return n


def reader_only_bounds(F, ck, pairs, sp):
    """R17.8: a decoder may refuse a stream for being too short or for carrying a tag no writer emits, but a decoded COUNT (a number
    read from the stream that bounds a loop or an allocation) compared against a fixed constant on the way to an Err is a bound
    that only the reader knows about, unless the writer compares the length it writes against the same constant."""
    import json
    ck.rule('R17.8', 'no reader rejects a decoded count by comparing it with a fixed constant unless the matching writer enforces the same constant (a value the writer encodes must be readable)')
    todo = [(name, rf, wf) for name, rf, wf in pairs]
    for (owner, tr), v in sorted(sp.items(), key=str):
        if len(v) == 2:
            todo.append((owner, v['deserialize'], v['serialize']))
    nguards = ncounts = 0
    for name, rf, wf in todo:
        if rf.body is None:
            continue
        counts = {}
        for x in walk(rf.body):
            if x.get('k') == 'Let' and 'i' in x and x['p'].get('k') == 'Bind':
                i = x['i']
                while i.get('k') in ('Try', 'Cast'):
                    i = i['e']
                if i.get('k') == 'MCall' and i.get('n') in COUNT_READS:
                    counts[x['p']['id']] = x['p']['n']
        ncounts += len(counts)
        decoded = {}
        for x in walk(rf.body):
            if x.get('k') == 'Let' and 'i' in x and x['p'].get('k') == 'Bind':
                if any(y.get('k') == 'MCall' and (y.get('n') or '').startswith('read_') for y in walk(x['i'])) or \
                        any(y.get('k') == 'Local' and y['id'] in decoded for y in walk(x['i'])):
                    decoded[x['p']['id']] = x['p']['n']
        for x in walk(rf.body):
            if x.get('k') != 'If':
                continue
            errs = flow.diverges_with_err(x['th']) or flow.tail_is_err(x['th']) or (x.get('el') is not None and (flow.diverges_with_err(x['el']) or flow.tail_is_err(x['el'])))
            if not errs:
                continue
            nguards += 1
            for c in walk(x['c']):
                if c.get('k') != 'Bin' or c.get('op') not in CMP:
                    continue
                lids = {y['id'] for y in walk(c['l']) if y.get('k') == 'Local' and y.get('n') != 'self'}
                rids = {y['id'] for y in walk(c['r']) if y.get('k') == 'Local' and y.get('n') != 'self'}
                ctx_side = (lids and lids <= set(decoded) and rids and not (rids & set(decoded)) and not any(y.get('k') == 'MCall' and (y.get('n') or '').startswith(('read_', 'remaining')) for y in walk(c['r']))) or \
                           (rids and rids <= set(decoded) and lids and not (lids & set(decoded)) and not any(y.get('k') == 'MCall' and (y.get('n') or '').startswith(('read_', 'remaining')) for y in walk(c['l'])))
                if ctx_side:
                    # a decoded value compared with the decoding context (circuit data): same argument - the writer must refuse what the reader refuses
                    wok = wf.body is not None and any(y.get('k') == 'Bin' and y.get('op') in CMP for y in walk(wf.body))
                    dn = decoded[sorted((lids | rids) & set(decoded))[0]]
                    ck.ob('R17.8', 'context-bound:%s:%s' % (name, dn), wok, 'the writer checks a relation as well' if wok else
                          'READER-ONLY CHECK: %s refuses a stream when the decoded `%s` fails a comparison with the decoding context, but %s writes it without any check: '
                          'an object the writer accepts and encodes (e.g. a gate that exactly fills the routed wires) is refused when read back' % (rf.qual, dn, wf.qual), x.get('s'))
                    continue
                if lids and rids and lids <= set(decoded) and rids <= set(decoded):
                    # a relation between two decoded values: only a writer that checks the same relation can guarantee it
                    wok = wf.body is not None and any(y.get('k') == 'Bin' and y.get('op') in CMP for y in walk(wf.body))
                    ck.ob('R17.8', 'relation:%s:%s~%s' % (name, decoded[sorted(lids)[0]], decoded[sorted(rids)[0]]), wok, 'the writer checks a relation as well' if wok else
                          'READER-ONLY CHECK: %s refuses a stream when a relation between two decoded values (`%s`, `%s`) fails, but %s writes them without any check: '
                          'an object the writer accepts and encodes is refused when read back' % (rf.qual, decoded[sorted(lids)[0]], decoded[sorted(rids)[0]], wf.qual), x.get('s'))
                    continue
                for a, b in ((c['l'], c['r']), (c['r'], c['l'])):
                    ids = {y['id'] for y in walk(a) if y.get('k') == 'Local'}
                    if not (ids & set(counts)) or not _const_side(b):
                        continue
                    cn = json.dumps(_norm(b), sort_keys=True)
                    wok = wf.body is not None and any(y.get('k') == 'Bin' and y.get('op') in CMP and
                                                     (json.dumps(_norm(y['l']), sort_keys=True) == cn or json.dumps(_norm(y['r']), sort_keys=True) == cn)
                                                     for y in walk(wf.body))
                    cnt = counts[sorted(ids & set(counts))[0]]
                    ck.ob('R17.8', 'bound:%s:%s' % (name, cnt), wok, 'the writer enforces the same constant' if wok else
                          'READER-ONLY BOUND: %s refuses a stream whose decoded count `%s` fails a comparison with a fixed constant, but %s writes any length without that check: '
                          'an object the writer accepts and encodes is refused when read back' % (rf.qual, cnt, wf.qual), x.get('s'))
    ck.floor('R17.8', 'decoded counts in readers (locals bound to read_usize / read_uN)', ncounts, 60)
    ck.floor('R17.8', 'Err-returning guards in readers examined', nguards, 1)


def decode_context(F, ck):
    """R17.9: gate (and generator) decoders receive the circuit's common data as decoding context and read some of its fields
    (today: the lookup tables, which a LookupGate stores by index). read_common_circuit_data builds that context itself, before
    the gates are read, with placeholders for what is not decoded yet: no field that any decoder reads may be a placeholder."""
    ck.rule('R17.9', 'the partially built CommonCircuitData that read_common_circuit_data hands to the gate decoders carries decoded data (not a placeholder) in every field that some Gate::deserialize / generator deserialize reads')
    used = {}
    for f in F.fns.values():
        if f.crate != 'plonky2' or f.body is None or f.name != 'deserialize':
            continue
        for x in walk(f.body):
            if x.get('k') != 'Field':
                continue
            e = x['e']
            while e.get('k') in ('Un', 'Ref'):
                e = e['e']
            if e.get('k') == 'Local' and 'CommonCircuitData' in (f.ty(e) or ''):
                used.setdefault(x['n'], []).append(f.qual)
    ck.floor('R17.9', 'fields of the decoding context read by deserialize implementations', len(used), 1)
    fn = F.one('Read::read_common_circuit_data', crate='plonky2')
    if fn is None or fn.body is None:
        ck.ob('R17.9', 'anchor', False, 'ANCHOR-MISSING Read::read_common_circuit_data')
        return
    lits = [x for x in walk(fn.body) if x.get('k') == 'Struct' and x.get('d', '').endswith('CommonCircuitData')]
    gate_reads = [x for x in walk(fn.body) if x.get('k') == 'MCall' and x.get('n') == 'read_gate']
    if len(lits) != 1 or not gate_reads:
        ck.ob('R17.9', 'anchor', False, 'ANCHOR-MISSING: read_common_circuit_data no longer builds one CommonCircuitData literal and reads gates with it (%d literals, %d read_gate calls)' % (len(lits), len(gate_reads)))
        return
    placeholders = [n for n, i in lits[0]['f'] if not any(y.get('k') == 'Local' for y in walk(i))]
    ck.floor('R17.9', 'placeholder fields in the decoding context (gates)', len(placeholders), 1)
    for n in sorted(used):
        ok = n not in placeholders
        ck.ob('R17.9', 'context:' + n, ok, 'decoded before the gates are read (read by %d decoders)' % len(used[n]) if ok else
              'DECODING CONTEXT: %s read common_data.%s while decoding, but read_common_circuit_data passes them a context in which %s is still a placeholder: '
              'circuits whose gates refer to it (lookup tables by index) cannot be restored - the decoder indexes an empty list' % (', '.join(sorted(set(used[n]))[:3]), n, n), lits[0].get('s'))


def run(F, ck, tier):
    ck.rule('R17.1', 'reader/writer grammar agreement (kind sequence, loop/branch shape) after expanding helpers to byte-level primitives')
    ck.rule('R17.2', 'field order agreement between writer and reader (through the reader\'s result literal / constructor)')
    ck.rule('R17.3', 'writer coverage: every field of the serialised struct is written')
    ck.rule('R17.4', 'serializer registries are exhaustive and consistent; generator ids are distinct')
    R = grammar.Grammar(F, 'read')
    W = grammar.Grammar(F, 'write')
    WS = grammar.Grammar(F, 'write', shallow=True)
    pairs, lonely = trait_pairs(F)
    ck.floor('R17.1', 'read_*/write_* pairs of the Read/Write traits', len(pairs), 55)
    for n in lonely:
        ck.ob('R17.1', 'unpaired:' + n, False, '%s has no counterpart on the other side' % n)
    for name, rf, wf in pairs:
        gr = grammar.normalise(R.expand(rf.name))
        gw = grammar.normalise(W.expand(wf.name))
        compare(ck, 'pair:' + name, gr, gw, rf, wf, name)
    sp = serde_pairs(F)
    npairs = 0
    for (owner, tr), v in sorted(sp.items(), key=str):
        if len(v) != 2:
            if owner == 'FriReductionStrategy':
                continue        # serialize() here is the transcript encoding (C04), not a byte codec
            ck.ob('R17.1', 'unpaired:%s' % owner, False, '%s implements only %s' % (owner, list(v)))
            continue
        npairs += 1
        gw = W.of_fn(v['serialize'])
        gr = R.of_fn(v['deserialize'])
        compare(ck, 'serde:%s' % owner, gr, gw, v['deserialize'], v['serialize'], owner)
    ck.floor('R17.1', 'serialize/deserialize pairs (gates, generators)', npairs, 40)

    # ---------------------------------------------------------------- R17.2 / R17.3
    nord = 0
    for (owner, tr), v in sorted(sp.items(), key=str):
        if len(v) != 2:
            continue
        nord += field_order(F, ck, 'serde:%s' % owner, v['serialize'], v['deserialize'], {'self'}, owner, WS, coverage=True)
    for name, rf, wf in pairs:
        pn, adt = struct_param(wf)
        if pn is None:
            continue
        nord += field_order(F, ck, 'pair:%s' % name, wf, rf, {pn}, adt, WS, coverage=True)
    ck.floor('R17.2', 'pairs with a field-order verdict', nord, 40)

    # ---------------------------------------------------------------- R17.4
    registries(F, ck)
    # ---------------------------------------------------------------- R17.5
    ck.rule('R17.5', 'proof decoder lengths equal the circuit\'s own length definitions (FRI oracle table, shape validator), compared as polynomials over type-qualified struct fields')
    from . import lengths
    lengths.check(F, ck, 'R17.5')
    # ---------------------------------------------------------------- R17.7
    ck.rule('R17.7', 'readers and writers that walk the FRI arity schedule never multiply the position by the arity at that position (a uniform-arity assumption: mixed schedules would be decoded with other indices than they were encoded with)')
    from . import c16
    c16.uniform_arity(F, ck, 'R17.7')
    reader_only_bounds(F, ck, pairs, sp)
    decode_context(F, ck)
    # ---------------------------------------------------------------- R17.6
    ck.rule('R17.6', 'a decoder that reads circuit data and a proof from one stream reads the proof with THAT circuit data (the writer stored them together), not with the enclosing circuit\'s')
    PROOF_READS = {'read_proof_with_public_inputs', 'read_compressed_proof_with_public_inputs', 'read_proof', 'read_compressed_proof'}
    DATA_READS = {'read_verifier_circuit_data', 'read_common_circuit_data', 'read_circuit_data', 'read_prover_circuit_data', 'read_verifier_only_circuit_data'}
    nn = 0
    for fn in sorted(F.fns.values(), key=lambda f: f.qual):
        if fn.crate not in ('plonky2', 'starky') or fn.body is None or fn.name.startswith('read_'):
            continue
        names = {x.get('n') for x in walk(fn.body) if x.get('k') == 'MCall'}
        if not (names & PROOF_READS) or not (names & DATA_READS):
            continue
        fl = flow.Flow(F, fn, opaque=('Buffer',))
        seen_data = []
        for e in fl.events:
            if e.kind != 'call':
                continue
            if e.name in DATA_READS:
                seen_data.append(e.name)
            elif e.name in PROOF_READS and seen_data:
                nn += 1
                d = e.deps()
                ok = any(flow.has_call(d, x) for x in seen_data)
                ck.ob('R17.6', 'nested:%s:%s' % (fn.qual, e.name), ok, 'proof decoded with the circuit data read from the same stream' if ok else
                      'NESTED DECODE WITH THE WRONG CIRCUIT: %s reads circuit data (%s) and then a proof from the same stream, but decodes the proof with lengths taken from somewhere else: '
                      'the stored proof belongs to the stored circuit, so whenever the two circuits differ in shape the restored object is garbage or the decode fails' % (fn.qual, ', '.join(seen_data)), e.loc())
    ck.floor('R17.6', 'decoders that read both circuit data and a proof', nn, 1)
    ck.decided += ['all reader/writer pairs have the same grammar', 'field order agrees', 'writers cover every field', 'registries exhaustive and consistent']
    ck.undecided += ['round-trip equality of values', 'interchangeability of restored circuits (behavioural)']
    return 'Decides structural necessary conditions of C17: grammar and field-order agreement of all reader/writer pairs, writer field coverage, registry exhaustiveness. Behavioural interchangeability is not decided.'


def compare(ck, key, gr, gw, rf, wf, name):
    a, b = grammar.render(gr), grammar.render(gw)
    loc = '%s:%d' % (rf.file, rf.line)
    if a == b:
        ck.ob('R17.1', key, True, 'grammar: %s' % (a[:120] or 'eps'), loc)
        return
    ca, cb = grammar.render(grammar.collapse_runs(gr)), grammar.render(grammar.collapse_runs(gw))
    if ca == cb:
        ck.ob('R17.1', key, True, 'grammars agree modulo fixed repetition vs loop (one side unrolls a constant number of identical items): %s' % ca[:120], loc)
        return
    if name in HELPER_ASYMMETRY:
        ck.ob('R17.1', key, True, 'reviewed asymmetric helper: ' + HELPER_ASYMMETRY[name], loc)
        return
    ck.ob('R17.1', key, False, 'GRAMMAR MISMATCH between %s and %s: reader consumes [%s] but writer emits [%s]' % (rf.qual, wf.qual, a[:200], b[:200]), loc)


def field_order(F, ck, key, wfn, rfn, roots, adt, W, coverage=False):
    g = W.of_fn(wfn)
    wl = writer_fields(F, wfn, roots)
    fields = F.adt_fields(adt, crate=wfn.crate) or F.adt_fields(adt)
    if coverage and fields is not None:
        written = set()
        for e, fs in writer_fields(F, wfn, roots, with_ctx=True):
            written |= fs
        # fields may also be written through pattern destructuring (p:root.f appears regardless)
        for f, t in fields:
            if f in PHANTOM or 'PhantomData' in t:
                continue
            ok = f in written
            rec = RECONSTRUCTED.get((adt, f))
            if not ok and rec is not None:
                via = any(x.get('k') in ('Call', 'MCall') and parse_path(callee(x) or '')[1] == rec[0] for x in walk(rfn.body))
                ck.ob('R17.3', 'covered:%s:%s' % (key, f), via, ('reviewed: ' + rec[1]) if via else 'field %s is neither written nor reconstructed through %s() any more' % (f, rec[0]), '%s:%d' % (rfn.file, rfn.line))
                continue
            ck.ob('R17.3', 'covered:%s:%s' % (key, f), ok, 'written' if ok else 'field %s of %s is never written by %s: it cannot survive a round trip' % (f, adt, wfn.qual), '%s:%d' % (wfn.file, wfn.line))
    if has_alt(g):
        return 0
    rl = reader_fields(F, rfn, adt)
    if rl is None:
        return 0
    # only top-level events of the writer
    wl = [(e, fs) for e, fs in wl if not e.stack]
    if len(wl) != len(rl):
        return 0
    bad = None
    for k, ((we, wfs), (re_, rfield)) in enumerate(zip(wl, rl)):
        if not wfs or rfield is None:
            continue
        if rfield not in wfs:
            bad = (k, sorted(wfs), rfield, re_)
            break
    ck.ob('R17.2', 'order:' + key, bad is None, 'field order agrees over %d items' % len(wl) if bad is None else
          'item #%d is written from field %s by %s but %s puts what it reads there into field `%s`' % (bad[0] + 1, '/'.join(bad[1]), wfn.qual, rfn.qual, bad[2]), bad[3].loc() if bad else '%s:%d' % (rfn.file, rfn.line))
    return 1


def registries(F, ck):
    for kind, trait, ser_owner, rd_name, wr_name in (('gate', 'Gate', 'DefaultGateSerializer', 'read_gate', 'write_gate'),
                                                     ('generator', 'SimpleGenerator', 'DefaultGeneratorSerializer', 'read_generator', 'write_generator')):
        rfn = [f for f in F.find('%s::%s' % (ser_owner, rd_name), crate='plonky2')]
        wfn = [f for f in F.find('%s::%s' % (ser_owner, wr_name), crate='plonky2')]
        if len(rfn) != 1 or len(wfn) != 1:
            ck.ob('R17.4', 'anchor:' + ser_owner, False, 'ANCHOR-MISSING %s::{%s,%s}' % (ser_owner, rd_name, wr_name))
            continue
        # types dispatched by the reader: resolved `deserialize` callees; by the writer: type args of `is::<T>()`
        rtypes = []
        for n in walk(rfn[0].body):
            if n.get('k') == 'Call':
                c = callee(n) or ''
                if parse_path(c)[1] == 'deserialize':
                    ga = n['f'].get('ga', '')
                    rtypes.append(first_ty(ga))
        wtypes = []
        for n in walk(wfn[0].body):
            if n.get('k') == 'MCall' and n.get('n') == 'is':
                wtypes.append(first_ty(n.get('ga', '')))
            elif n.get('k') == 'Call' and parse_path(callee_decl(n) or '')[1] == 'default' and n['f'].get('ga'):
                wtypes.append(first_ty(n['f']['ga']))
        same = rtypes == wtypes and len(rtypes) > 0
        ck.ob('R17.4', 'dispatch:%s' % kind, same, '%d types, same order in reader and writer dispatch' % len(rtypes) if same else
              'reader dispatch enumerates %s but writer tags %s: tags would not correspond' % (rtypes, wtypes), '%s:%d' % (rfn[0].file, rfn[0].line))
        registered = {strip_generics(t.replace('crate::', 'plonky2::')) for t in rtypes}
        impls = set()
        for i in F.impls_of(trait):
            if i['crate'] != 'plonky2':
                continue
            impls.add(strip_generics(i.get('self_adt') or i['self']))
        # adapters / wrappers are not serialised on their own
        impls = {t for t in impls if not t.endswith('SimpleGeneratorAdapter')}
        ck.floor('R17.4', '%s impls' % kind, len(impls), 16 if kind == 'gate' else 24)
        for t in sorted(impls):
            ok = t in registered
            ck.ob('R17.4', 'registered:%s:%s' % (kind, t), ok, 'registered' if ok else '%s implements %s but is not in %s: a circuit using it cannot be saved / restored' % (t, trait, ser_owner), '%s:%d' % (rfn[0].file, rfn[0].line))
        dup = {t for t in rtypes if rtypes.count(t) > 1}
        ck.ob('R17.4', 'unique:%s' % kind, not dup, 'no type registered twice' if not dup else 'registered twice: %s' % sorted(dup), '%s:%d' % (rfn[0].file, rfn[0].line))
    # generator ids distinct
    ids = {}
    for f in F.fns.values():
        if f.name == 'id' and (f.trait or '').endswith('SimpleGenerator') and f.crate == 'plonky2':
            lits = [str(n['v']) for n in walk(f.body) if n.get('k') == 'Lit' and n.get('lk') in ('str', 'other') and n['v']]
            key = '|'.join(lits)
            ids.setdefault(key, []).append(f.owner)
    n = 0
    for k, owners in ids.items():
        n += 1
        ck.ob('R17.4', 'id:%s' % '+'.join(sorted(owners)), len(owners) == 1, 'generator id template "%s" is unique' % k if len(owners) == 1 else
              'generators %s share the id template "%s": the registry cannot tell them apart' % (sorted(owners), k))
    ck.floor('R17.4', 'generator id() bodies', n, 20)


def first_ty(ga):
    ga = ga.strip()
    if ga.startswith('['):
        ga = ga[1:-1]
    from .facts import split_top
    parts = split_top(ga)
    return parts[0] if parts else ga


def short_ty(t):
    return strip_generics(t).split('::')[-1]
