"""C07 - every value a gate computes is pinned by that gate's constraints (structural clauses).

R07.1 wire coverage: every wire accessor that the gate's own witness generators read or write flows into an emitted
      constraint in EACH evaluator of the gate
R07.2 evaluator agreement: the evaluators of one gate use the same set of wire accessors, and advance the same
      loop-carried counters in every branch
R07.3 declared count: (thorough) the number of emission sites, weighted by loop structure, is consistent between the
      evaluators of one gate  [structural count agreement; symbolic equality with num_constraints() is not attempted]
R07.4 buffer contract: the strided consumer refuses to write past the end
"""
from . import flow
from .facts import pat_binds, walk, kids, parse_path, callee, strip_generics

ACC_PREFIX = ('wire', 'wires', 'limbs', 'const_input')
CONST_PREFIX = ('WIRE_', 'START_')
# gates whose constraints live elsewhere (decided under C08) or that have no wires
NO_LOCAL_CONSTRAINTS = {'LookupGate': 'constraints are the lookup argument in check_lookup_constraints* (C08)', 'LookupTableGate': 'constraints are the lookup argument in check_lookup_constraints* (C08)',
                        'NoopGate': 'no wires, no constraints'}
# accessors used by a generator but deliberately not constrained by the gate itself
UNCONSTRAINED_OK = {}


def is_stub(fn):
    """`panic!("use eval_unfiltered_base_packed instead")` style stubs"""
    body = fn.body
    n = sum(1 for _ in walk(body))
    return n < 40 and flow.panics(body)


def gate_table(F):
    out = []
    for i in F.impls_of('Gate'):
        if i['crate'] != 'plonky2':
            continue
        adt = i.get('self_adt')
        if not adt:
            continue
        short = adt.split('::')[-1]
        fns = {f.name: f for f in F.fns.values() if f.raw.get('impl') == i['d']}
        inherent = [f for f in F.fns.values() if f.raw.get('self_adt') == adt and not f.trait]
        accs = {f.name for f in inherent if f.raw['dk'] == 'AssocFn' and f.name.startswith(ACC_PREFIX)}
        consts = {f.name for f in inherent if f.raw['dk'].startswith('AssocConst') and f.name.startswith(CONST_PREFIX)}
        packed = [f for f in F.fns.values() if f.name == 'eval_unfiltered_base_packed' and f.raw.get('self_adt') == adt]
        gens = [f for f in F.fns.values() if (f.trait or '').endswith('SimpleGenerator') and f.file == (fns.get('eval_unfiltered').file if fns.get('eval_unfiltered') else None)]
        out.append(dict(adt=adt, short=short, fns=fns, accs=accs, consts=consts, packed=packed[0] if packed else None, gens=gens, impl=i))
    return out


def accessor_atoms(v, short, accs, consts):
    out = set()
    for a in flow.flat(v):
        if a.startswith('c:'):
            q = a[2:]
            if q.startswith(short + '::') and q.split('::')[-1] in accs:
                out.add(q.split('::')[-1])
        elif a.startswith('d:'):
            q = a[2:]
            if q.startswith(short + '::') and q.split('::')[-1] in consts:
                out.add(q.split('::')[-1])
    return out


def emitted(F, fn, adt):
    """value flowing into emitted constraints of an evaluator"""
    inl = lambda c, d, ev: F.fns.get(c) if (c in F.fns and F.fns[c].raw.get('self_adt') == adt and not F.fns[c].trait and F.fns[c].raw['dk'] == 'AssocFn') else None
    fl = flow.Flow(F, fn, inline=inl, depth=2)
    v = flow.flat(fl.ret)
    nsites = 0
    for e in fl.events:
        if e.kind == 'call' and not e.stack:
            if e.name in ('one', 'many') and e.node.get('k') == 'MCall' and 'ConstraintConsumer' in (fn.ty(e.node['r']) or ''):
                for a in e.args:
                    v = v | flow.flat(a)
                nsites += 1
            elif e.name in ('push', 'extend', 'extend_from_slice') and e.node.get('k') == 'MCall' and e.node['r'].get('k') == 'Local' and e.node['r']['n'] in ('constraints', 'res'):
                nsites += 1
    return v, fl, nsites


def branch_counters(fn):
    """(if node, var name, 'then'|'else') for counters advanced in only one arm of an if/else"""
    out = []
    for n in walk(fn.body):
        if n.get('k') != 'If' or 'el' not in n:
            continue
        def upd(b):
            s = set()
            for x in walk(b):
                if x.get('k') == 'AssignOp' and x['l'].get('k') == 'Local':
                    s.add((x['l']['id'], x['l']['n']))
            return s
        a, b = upd(n['th']), upd(n['el'])
        # only counters declared outside the if
        inner = {p['id'] for x in walk(n) if x.get('k') == 'Let' for p in __binds(x['p'])}
        for (i, nm) in (a ^ b):
            if i in inner:
                continue
            out.append((n, nm, 'else' if (i, nm) in a else 'then'))
    return out


def __binds(p):
    from .facts import pat_binds
    return list(pat_binds(p))


# (gate, evaluator) -> (extra lengths, missing lengths, reason): reviewed differences of range loops w.r.t. eval_unfiltered
LOOP_EXCEPTIONS = {
    ('PoseidonGate', 'eval_unfiltered_circuit'): (['22'], [], 'the in-circuit evaluator has an explicit loop over the N_PARTIAL_ROUNDS - 1 partial rounds in its fallback branch (no PoseidonMdsGate available); the native evaluators call the fused partial-round helpers'),
}


def _msdiff(a, b):
    out = list(a)
    for x in b:
        if x in out:
            out.remove(x)
    return out


def loop_bounds(F, fn):
    """lengths (end - start, as normalised polynomials) of all range loops / range-based iterator chains in a function"""
    from . import poly
    E = poly.Ev(F)
    env = {}
    for s in walk(fn.body):
        if s.get('k') == 'Let' and 'i' in s and s['p'].get('k') == 'Bind' and s['p']['id'] not in env:
            try:
                env[s['p']['id']] = E.ev(fn, s['i'], env, 3)
            except poly.Unknown as ex:
                env[s['p']['id']] = ex
    out = []
    for n in walk(fn.body):
        it = None
        if n.get('k') == 'For':
            it = n['it']
        elif n.get('k') == 'MCall' and n['n'] in ('map', 'for_each', 'flat_map', 'filter_map'):
            it = n['r']
        if it is None:
            continue
        x = it
        while isinstance(x, dict) and x.get('k') == 'MCall' and x['n'] in ('map', 'rev', 'enumerate', 'into_iter', 'iter', 'zip', 'collect', 'flat_map'):
            x = x['r']
        if isinstance(x, dict) and x.get('k') == 'Struct' and 'Range' in (x.get('d') or ''):
            f = dict(x['f'])
            try:
                a = E.ev(fn, f['start'], env, 3) if 'start' in f else {}
                b = E.ev(fn, f['end'], env, 3)
                out.append(poly.show(poly.add(b, a, -1)))
            except (poly.Unknown, KeyError):
                out.append('?')
    return sorted(out)


FAMILY_SUFFIXES = ['_packed_field', '_field', '_circuit']


def _norm_indices(F, fn):
    """(set of normalised index expressions, set of constant tables referenced): usize parameters are U0, U1, .. by position, loop and
    closure variables L<depth> by nesting depth, plain lets are looked through"""
    from . import poly
    from .facts import pat_binds
    E = poly.Ev(F)
    env = {}
    k = 0
    for p in fn.params:
        for b in pat_binds(p):
            t = fn.types[b['t']] if b.get('t') is not None else ''
            if t == 'usize':
                env[b['id']] = poly.sym('U%d' % k)
                k += 1
    out = []
    consts = set()

    def rec(n, depth, env):
        if not isinstance(n, dict):
            return
        kd = n.get('k')
        if kd == 'Def' and n['d'].split('::')[-1].replace('_', '').isupper() and (n.get('dk') or '').startswith(('AssocConst', 'Const')) and 'oseidon' in n['d']:
            consts.add(n['d'].split('::')[-1])
        if kd == 'For':
            rec(n['it'], depth, env)
            e2 = dict(env)
            for b in pat_binds(n['p']):
                e2[b['id']] = poly.sym('L%d' % depth)
            rec(n['b'], depth + 1, e2)
            return
        if kd == 'Closure':
            e2 = dict(env)
            for p in n['p']:
                for b in pat_binds(p):
                    e2[b['id']] = poly.sym('L%d' % depth)
            rec(n['b'], depth + 1, e2)
            return
        if kd == 'Let' and 'i' in n and n['p'].get('k') == 'Bind':
            rec(n['i'], depth, env)
            try:
                env[n['p']['id']] = E.ev(fn, n['i'], env, 2)
            except poly.Unknown:
                pass
            return
        if kd == 'Block':
            e2 = dict(env)
            for s_ in n['st']:
                rec(s_, depth, e2)
            if 'e' in n:
                rec(n['e'], depth, e2)
            return
        if kd == 'Index':
            i = n['i']
            if not (i.get('k') == 'Struct' and 'Range' in (i.get('d') or '')):
                try:
                    out.append(poly.show(E.ev(fn, i, env, 2)))
                except poly.Unknown:
                    out.append('?')
        for c in kids(n):
            rec(c, depth, env)
    rec(fn.body, 0, env)
    return set(out), consts


def poseidon_families(F, ck):
    ck.rule('R07.7', 'the field / packed / in-circuit variants of each Poseidon helper (the code behind PoseidonGate\'s three evaluators) index their state and constant tables with the same normalised expressions and use the same constant tables')
    import collections
    fams = collections.defaultdict(dict)
    for fn in F.fns.values():
        if fn.crate == 'plonky2' and fn.file.endswith('hash/poseidon.rs') and fn.body is not None and fn.owner == 'Poseidon':
            for sf in FAMILY_SUFFIXES:
                if fn.name.endswith(sf):
                    fams[fn.name[:-len(sf)]][sf] = fn
                    break
    ncmp = 0
    for st in sorted(fams):
        vs = fams[st]
        if len(vs) < 2:
            continue
        res = {sf: _norm_indices(F, fn) for sf, fn in vs.items()}
        # a variant whose indices are all literals was unrolled by hand / macro: its shape is not comparable
        sym_ = {sf: r for sf, r in res.items() if any(not x.lstrip('-').isdigit() for x in r[0]) or not r[0]}
        if len(sym_) < 2:
            continue
        ref_sf = sorted(sym_)[0]
        for sf in sorted(sym_):
            if sf == ref_sf:
                continue
            ncmp += 1
            oki = sym_[sf][0] == sym_[ref_sf][0]
            okc = sym_[sf][1] == sym_[ref_sf][1]
            fn = vs[sf]
            ck.ob('R07.7', 'family:%s:%s~%s' % (st, sf.lstrip('_'), ref_sf.lstrip('_')), oki and okc, 'same index expressions %s and constant tables %s' % (sorted(sym_[sf][0]), sorted(sym_[sf][1])) if oki and okc else
                  'SIBLING DISAGREEMENT in Poseidon::%s: the %s variant indexes with %s / tables %s where the %s variant has %s / %s - the evaluators of PoseidonGate (and the in-circuit permutation) then compute different functions' %
                  (st, sf.lstrip('_'), sorted(sym_[sf][0] - sym_[ref_sf][0]) or '-', sorted(sym_[sf][1] - sym_[ref_sf][1]) or '-', ref_sf.lstrip('_'), sorted(sym_[ref_sf][0] - sym_[sf][0]) or '-', sorted(sym_[ref_sf][1] - sym_[sf][1]) or '-'),
                  '%s:%d' % (fn.file, fn.line))
    ck.floor('R07.7', 'Poseidon helper variant pairs compared', ncmp, 6)


SETTERS = {'set_wire', 'set_wires', 'set_ext_wires', 'set_extension_target', 'set_target', 'set_extension_targets'}


def accessor_ranges(F, fn, accs, written_only):
    """{(accessor, loop length)}: indexed accessor calls whose argument uses the variable of an enclosing range loop of that length;
    written_only: only calls inside the arguments of witness setters (what a generator writes)"""
    from . import poly
    from .facts import pat_binds
    E = poly.Ev(F)
    out = set()

    def rng_len(it, env):
        x = it
        while isinstance(x, dict) and x.get('k') == 'MCall' and x['n'] in ('map', 'rev', 'enumerate', 'into_iter', 'iter', 'zip', 'collect', 'flat_map'):
            x = x['r']
        if isinstance(x, dict) and x.get('k') == 'Struct' and 'Range' in (x.get('d') or ''):
            f = dict(x['f'])
            try:
                a = E.ev(fn, f['start'], env, 3) if 'start' in f else {}
                b = E.ev(fn, f['end'], env, 3)
                return poly.show(poly.add(b, a, -1))
            except (poly.Unknown, KeyError):
                return '?'
        return None

    def rec(n, loops, env, in_set):
        if not isinstance(n, dict):
            return
        k = n.get('k')
        if k == 'Block':
            e2 = dict(env)
            for s_ in n['st']:
                rec(s_, loops, e2, in_set)
                if s_.get('k') == 'Let' and 'i' in s_ and s_['p'].get('k') == 'Bind':
                    try:
                        e2[s_['p']['id']] = E.ev(fn, s_['i'], e2, 3)
                    except poly.Unknown:
                        pass
            if 'e' in n:
                rec(n['e'], loops, e2, in_set)
            return
        if k == 'For':
            ln = rng_len(n['it'], env)
            rec(n['it'], loops, env, in_set)
            rec(n['b'], loops + [([b['id'] for b in pat_binds(n['p'])], ln)], env, in_set)
            return
        if k == 'MCall' and n.get('n') in ('map', 'for_each', 'flat_map') and any(a.get('k') == 'Closure' for a in n.get('a', [])):
            ln = rng_len(n['r'], env)
            rec(n['r'], loops, env, in_set)
            for a in n['a']:
                if a.get('k') == 'Closure':
                    rec(a['b'], loops + [([b['id'] for p in a['p'] for b in pat_binds(p)], ln)], env, in_set)
                else:
                    rec(a, loops, env, in_set)
            return
        if k in ('Call', 'MCall'):
            nm = parse_path(callee(n) or '')[1] or n.get('n')
            if nm in accs and n.get('a') and (in_set or not written_only):
                for a in n['a']:
                    lids = {y['id'] for y in walk(a) if y.get('k') == 'Local'}
                    for ids, ln in loops:
                        if ln and lids & set(ids):
                            out.add((nm, ln))
            if nm in SETTERS:
                if k == 'MCall':
                    rec(n['r'], loops, env, in_set)
                for a in n.get('a', []):
                    rec(a, loops, env, True)
                return
        for c in kids(n):
            rec(c, loops, env, in_set)
    rec(fn.body, [], {}, False)
    return out


def emitted_count(F, fn):
    """symbolic number of constraints returned by an `eval_unfiltered` (extension) evaluator: pushes / extends into the result vector
    weighted by the lengths of the enclosing range loops, `vec![..]` literals, and a tail iterator chain (x D for a flat_map over
    to_basefield_array).  Returns (polynomial | None, reason)"""
    from . import poly
    from .facts import pat_binds
    E = poly.Ev(F)
    state = {'total': {}, 'why': None}
    vlen = {}
    loops = []
    RES = ('constraints', 'res', 'result', 'out')

    def rng_len(x, env):
        while isinstance(x, dict) and x.get('k') == 'MCall' and x['n'] in ('map', 'rev', 'enumerate', 'into_iter', 'iter', 'zip', 'zip_eq', 'collect', 'copied', 'cloned', 'collect_vec'):
            x = x['r']
        if isinstance(x, dict) and x.get('k') == 'Struct' and 'Range' in (x.get('d') or ''):
            f = dict(x['f'])
            try:
                a = E.ev(fn, f['start'], env, 3) if 'start' in f else {}
                return poly.add(E.ev(fn, f['end'], env, 3), a, -1)
            except (poly.Unknown, KeyError):
                return None
        if isinstance(x, dict) and x.get('k') in ('MCall', 'Call'):
            try:
                s_, e_ = E.range_of(fn, x, env, 3)
                if e_ is not None:
                    return poly.add(e_, s_, -1)
            except poly.Unknown:
                pass
        return None

    def seqlen(n, env):
        x = n
        while isinstance(x, dict) and x.get('k') in ('Ref', 'Un', 'Cast'):
            x = x['e']
        if not isinstance(x, dict):
            return None
        if x.get('k') == 'Local':
            if x.get('n') in RES:
                return 'TOTAL'
            return vlen.get(x['id'])
        r = rng_len(x, env)
        if r is not None:
            return r
        if x.get('k') == 'MCall':
            if x['n'] == 'to_basefield_array':
                return poly.sym('D')
            if x['n'] == 'flat_map' and any(y.get('k') == 'MCall' and y.get('n') == 'to_basefield_array' for a in x.get('a', []) for y in walk(a)):
                b = seqlen(x['r'], env)
                if b == 'TOTAL':
                    return 'TOTAL*D'
                return poly.mul(b, poly.sym('D')) if b is not None else None
            if x['n'] in ('iter', 'into_iter', 'map', 'copied', 'cloned', 'collect', 'to_vec', 'rev', 'collect_vec', 'enumerate', 'zip', 'zip_eq', 'try_into', 'unwrap'):
                return seqlen(x['r'], env)
        if x.get('k') == 'Index' and x['i'].get('k') in ('Struct', 'MCall', 'Call'):
            return rng_len(x['i'], env)
        if x.get('k') == 'Array':
            return poly.const(len(x['a']))
        if x.get('k') == 'Block' and not x['st'] and 'e' in x:
            return seqlen(x['e'], env)
        return None

    def rec(n, mult, env):
        if not isinstance(n, dict) or state['why']:
            return
        k = n.get('k')
        if k == 'Block':
            e2 = dict(env)
            for s_ in n['st']:
                rec(s_, mult, e2)
                if s_.get('k') == 'Let' and 'i' in s_ and s_['p'].get('k') == 'Bind':
                    try:
                        e2[s_['p']['id']] = E.ev(fn, s_['i'], e2, 3)
                    except poly.Unknown:
                        pass
                    L = seqlen(s_['i'], e2)
                    if L is not None and L not in ('TOTAL', 'TOTAL*D'):
                        vlen[s_['p']['id']] = L
                    if s_['p'].get('n') in RES:
                        arrs = [y for y in walk(s_['i']) if y.get('k') == 'Array']
                        if arrs:
                            state['total'] = poly.add(state['total'], poly.mul(mult, poly.const(len(arrs[0]['a']))))
            if 'e' in n:
                rec(n['e'], mult, e2)
            return
        if k == 'For':
            L = seqlen(n['it'], env)
            if L is None or isinstance(L, str):
                state['why'] = 'loop over a sequence of unknown length at %s' % n.get('s')
                return
            loops.append(([b['id'] for b in pat_binds(n['p'])], L, mult, n['it']))
            rec(n['b'], poly.mul(mult, L), env)
            loops.pop()
            return
        if k == 'If' and 'el' not in n and any(y.get('k') == 'MCall' and y.get('n') in ('push', 'extend') for y in walk(n['th'])):
            # `if r != <first value of the loop> { .. }`: the body runs for all iterations of that loop but the first
            c = n['c']
            ok_ = False
            if c.get('k') == 'Bin' and c['op'] == 'Ne' and loops:
                ids, L, outer, it = loops[-1]
                for a_, b_ in ((c['l'], c['r']), (c['r'], c['l'])):
                    if a_.get('k') == 'Local' and a_['id'] in ids and b_.get('k') == 'Lit':
                        x = it
                        if x.get('k') == 'Struct' and 'Range' in (x.get('d') or ''):
                            st_ = dict(x['f']).get('start')
                            if st_ is not None and st_.get('k') == 'Lit' and str(st_.get('v')) == str(b_.get('v')):
                                rec(n['th'], poly.mul(outer, poly.add(L, poly.const(1), -1)), env)
                                ok_ = True
            if not ok_:
                state['why'] = 'constraints emitted under a condition at %s' % n.get('s')
            return
        if k == 'If' and 'el' in n:
            before = dict(state['total'])
            rec(n['th'], mult, env)
            a = state['total']
            state['total'] = dict(before)
            rec(n['el'], mult, env)
            b = state['total']
            if a != b:
                state['why'] = 'the arms of the if at %s emit different numbers of constraints' % n.get('s')
            return
        if k == 'MCall' and n['r'].get('k') == 'Local' and n['r'].get('n') in RES:
            if n.get('n') == 'push':
                state['total'] = poly.add(state['total'], mult)
            elif n.get('n') in ('extend', 'extend_from_slice', 'append') and n.get('a'):
                L = seqlen(n['a'][0], env)
                if L is None or isinstance(L, str):
                    state['why'] = 'extend with a sequence of unknown length at %s' % n.get('s')
                    return
                state['total'] = poly.add(state['total'], poly.mul(mult, L))
        for c in kids(n):
            rec(c, mult, env)
    rec(fn.body, poly.const(1), {})
    if state['why']:
        return None, state['why']
    # the returned value
    tail = fn.body
    while isinstance(tail, dict) and tail.get('k') == 'Block' and 'e' in tail:
        tail = tail['e']
    # lets of the top-level block are needed for the tail's ranges
    env = {}
    for s_ in fn.body.get('st', []):
        if s_.get('k') == 'Let' and 'i' in s_ and s_['p'].get('k') == 'Bind':
            try:
                env[s_['p']['id']] = E.ev(fn, s_['i'], env, 3)
            except poly.Unknown:
                pass
    L = seqlen(tail, env)
    if L == 'TOTAL':
        return state['total'], ''
    if L == 'TOTAL*D':
        return poly.mul(state['total'], poly.sym('D')), ''
    if L is None:
        return None, 'returned value of unknown length'
    return poly.add(state['total'], L) if state['total'] else L, ''


def run(F, ck, tier):
    ck.rule('R07.1', 'every wire accessor used by the gate\'s witness generators flows into an emitted constraint in each evaluator')
    ck.rule('R07.2', 'the evaluators of one gate constrain the same wire accessors; if/else arms advance the same counters')
    ck.rule('R07.3', 'declared count: eval_unfiltered returns exactly num_constraints() constraints (symbolic count of pushes / extends weighted by loop lengths, compared as polynomials over the gate parameters); emission-site structure agrees across the evaluators')
    ck.rule('R07.4', 'StridedConstraintConsumer::one checks the buffer bound before its unsafe write')
    gates = gate_table(F)
    ck.floor('R07.1', 'Gate impls', len(gates), 16)
    ninst = 0
    for g in sorted(gates, key=lambda x: x['short']):
        short = g['short']
        if short in NO_LOCAL_CONSTRAINTS:
            ck.ob('R07.1', 'gate:%s' % short, True, 'reviewed: ' + NO_LOCAL_CONSTRAINTS[short])
            continue
        evals = []
        for nm in ('eval_unfiltered', 'eval_unfiltered_circuit', 'eval_unfiltered_base_one'):
            f = g['fns'].get(nm)
            if f is not None and not is_stub(f):
                evals.append(f)
        if g['packed'] is not None:
            evals.append(g['packed'])
        if len(evals) < 3:
            ck.ob('R07.1', 'evaluators:%s' % short, False, 'gate %s has only %d non-stub evaluators (expected extension, circuit and base)' % (short, len(evals)))
        # accessors used by the generators in the same file
        used = set()
        for gen in g['gens']:
            if gen.name not in ('run_once', 'dependencies'):
                continue
            inl = lambda c, d, ev: F.fns.get(c) if (c in F.fns and F.fns[c].raw.get('self_adt') == g['adt'] and not F.fns[c].trait and F.fns[c].raw['dk'] == 'AssocFn') else None
            fl = flow.Flow(F, gen, inline=inl, depth=2)
            allv = flow.flat(fl.ret)
            for e in fl.events:
                if e.kind == 'call':
                    allv = allv | e.deps()
            used |= accessor_atoms(allv, short, g['accs'], g['consts'])
        if not g['gens']:
            # no generator (PublicInputGate): every wire accessor must be constrained
            used = set(a for a in g['accs'] if a.startswith('wire'))
        per_eval = {}
        sites = {}
        for f in evals:
            v, fl, ns = emitted(F, f, g['adt'])
            per_eval[f.name] = accessor_atoms(v, short, g['accs'], g['consts'])
            sites[f.name] = ns
        for f in evals:
            for acc in sorted(used):
                # START_* constants are internal to other accessors: covered when any accessor built on them is
                if acc.startswith('START_') or acc.startswith('start_'):
                    continue
                ninst += 1
                ok = acc in per_eval[f.name] or (short, acc) in UNCONSTRAINED_OK
                ck.ob('R07.1', 'constrained:%s:%s:%s' % (short, f.name, acc), ok, 'flows into a constraint' if ok else
                      'UNDER-CONSTRAINED: wire accessor %s::%s is read/written by the gate\'s generator but no constraint emitted by %s depends on it - the value can be replaced freely' % (short, acc, f.qual), '%s:%d' % (f.file, f.line))
        # R07.2 agreement
        names = sorted(per_eval)
        ref = per_eval.get('eval_unfiltered', set())
        for nm in names:
            if nm == 'eval_unfiltered':
                continue
            diff = (per_eval[nm] ^ ref) - {a for a in (per_eval[nm] ^ ref) if a.startswith('START_')}
            ck.ob('R07.2', 'same-wires:%s:%s' % (short, nm), not diff, 'same accessor set as eval_unfiltered (%d)' % len(ref) if not diff else
                  'evaluators of %s disagree: %s and eval_unfiltered differ on %s' % (short, nm, sorted(diff)), '%s:%d' % (g['fns'][nm].file if nm in g['fns'] else g['packed'].file, (g['fns'][nm].line if nm in g['fns'] else g['packed'].line)))
        for f in evals:
            for (ifn, var, missing_in) in branch_counters(f):
                ck.ob('R07.2', 'counter:%s:%s:%s' % (short, f.name, var), False, 'in %s the counter `%s` is advanced in only one arm of an if/else (%s arm does not update it): the arms leave different indices for the code that follows' % (f.qual, var, missing_in), ifn.get('s'))
            ck.ob('R07.2', 'counters-balanced:%s:%s' % (short, f.name), not branch_counters(f), 'if/else arms advance the same counters')
        # R07.3 structural site count
        vals = set(sites.values())
        ck.ob('R07.3', 'sites:%s' % short, len(vals) <= 2, 'emission sites per evaluator: %s' % sites if len(vals) <= 2 else 'emission sites differ widely across evaluators: %s' % sites)
    ck.floor('R07.1', 'accessor x evaluator instances', ninst, 120)
    # R07.3 (symbolic): the extension evaluator returns exactly num_constraints() constraints
    from . import poly as _poly
    nsym = 0
    for g in sorted(gates, key=lambda x: x['short']):
        if g['short'] in NO_LOCAL_CONSTRAINTS:
            continue
        ev_, nc_ = g['fns'].get('eval_unfiltered'), g['fns'].get('num_constraints')
        if ev_ is None or nc_ is None or is_stub(ev_):
            continue
        try:
            decl = _poly.Ev(F).ev(nc_, nc_.body, {}, 3)
        except _poly.Unknown as ex:
            ck.observe('R07.3 count of %s not decided: num_constraints() outside the normaliser (%s)' % (g['short'], ex))
            continue
        emit, why = emitted_count(F, ev_)
        if emit is None:
            ck.observe('R07.3 count of %s not decided: %s' % (g['short'], why))
            continue
        nsym += 1
        okc = emit == decl
        ck.ob('R07.3', 'count:%s' % g['short'], okc, 'eval_unfiltered returns %s constraints = num_constraints()' % _poly.show(decl) if okc else
              'DECLARED COUNT MISMATCH in %s: eval_unfiltered returns %s constraints but num_constraints() declares %s: surplus constraints are not combined into the quotient (unchecked), missing ones shift the constraints of other gates' %
              (g['short'], _poly.show(emit), _poly.show(decl)), '%s:%d' % (ev_.file, ev_.line))
    ck.floor('R07.3', 'gates whose emitted constraint count was derived symbolically', nsym, 10)
    # R07.6 loop bounds agree across the evaluators of one gate
    ck.rule('R07.6', 'the evaluators of one gate iterate over the same ranges: the multiset of range-loop lengths (as polynomials over the gate\'s fields) is the same in the extension, base and in-circuit evaluators')
    nb = 0
    for g in sorted(gates, key=lambda x: x['short']):
        if g['short'] in NO_LOCAL_CONSTRAINTS:
            continue
        res = {}
        for nm in ('eval_unfiltered', 'eval_unfiltered_circuit', 'eval_unfiltered_base_one'):
            f = g['fns'].get(nm)
            if f is not None and not is_stub(f):
                res[nm] = loop_bounds(F, f)
        if g['packed'] is not None:
            res['eval_unfiltered_base_packed'] = loop_bounds(F, g['packed'])
        ref = res.get('eval_unfiltered')
        if ref is None:
            continue
        for nm, b in sorted(res.items()):
            if nm == 'eval_unfiltered':
                continue
            nb += 1
            extra = _msdiff(b, ref)
            missing = _msdiff(ref, b)
            allowed = LOOP_EXCEPTIONS.get((g['short'], nm), ([], []))
            ok = sorted(extra) == sorted(allowed[0]) and sorted(missing) == sorted(allowed[1])
            ck.ob('R07.6', 'loops:%s:%s' % (g['short'], nm), ok, ('same range loops as eval_unfiltered: %s' % ', '.join(ref) if not extra and not missing else 'reviewed difference: ' + LOOP_EXCEPTIONS[(g['short'], nm)][2]) if ok else
                  'LOOP BOUND DISAGREEMENT in %s: %s iterates over ranges of length [%s] where eval_unfiltered has [%s]: the evaluators emit different constraints (a range taken from the wrong field, e.g. bits instead of num_copies)' %
                  (g['short'], nm, ', '.join(b), ', '.join(ref)), '%s:%d' % ((g['fns'].get(nm) or g['packed']).file, (g['fns'].get(nm) or g['packed']).line))
    ck.floor('R07.6', 'evaluator pairs with compared loop bounds', nb, 20)
    # R07.9 inside a loop over copies / operations, per-copy wire accessors receive the loop variable
    ck.rule('R07.9', 'inside a `for copy in 0..n` loop of a gate, every call of a wire accessor that has a parameter of that name passes an expression of the loop variable: a literal copy index there checks (or fills) the wires of ONE copy n times and leaves the other copies unconstrained')
    n79 = 0
    for fn_ in sorted(F.fns.values(), key=lambda f: f.qual):
        if fn_.crate != 'plonky2' or fn_.body is None or '/gates/' not in fn_.file:
            continue
        for lp in walk(fn_.body):
            if lp.get('k') != 'For':
                continue
            lv = [b for b in pat_binds(lp['p'])]
            if len(lv) != 1 or len(lv[0].get('n', '')) < 3:
                continue
            vname, vid = lv[0]['n'], lv[0]['id']
            for c_ in walk(lp['b']):
                if c_.get('k') not in ('MCall', 'Call'):
                    continue
                tgt = F.fns.get(c_.get('d') if c_.get('k') == 'MCall' else (callee(c_) or ''))
                if tgt is None or tgt.crate != 'plonky2' or not tgt.name.startswith(('wire_', 'wires_')):
                    continue
                pn_ = [b['n'] for p in tgt.params for b in pat_binds(p)]
                args_ = ([c_['r']] if c_.get('k') == 'MCall' else []) + list(c_.get('a', []))
                if vname not in pn_ or len(args_) != len(pn_):
                    continue
                n79 += 1
                a_ = args_[pn_.index(vname)]
                uses = any(y.get('k') == 'Local' and y.get('id') == vid for y in walk(a_))
                if not uses:
                    # another loop variable of the same name nested inside (shadowing) is fine
                    uses = any(y.get('k') == 'Local' and y.get('n') == vname for y in walk(a_))
                if not uses:
                    ck.ob('R07.9', 'per-copy:%s:%s' % (fn_.qual, tgt.name), False, 'PER-COPY ACCESSOR WITH A FIXED COPY: in %s, inside the loop over `%s`, %s is called with a `%s` argument that does not depend on the loop variable: '
                          'the same wires are visited in every iteration and the corresponding wires of the other copies are never constrained / filled' % (fn_.qual, vname, tgt.name, vname), c_.get('s'))
    ck.ob('R07.9', 'per-copy:all', True, '%d per-copy accessor calls inside copy loops' % n79)
    ck.floor('R07.9', 'per-copy accessor calls inside loops over the same-named variable', n79, 12)
    # R07.8 every indexed wire the generator WRITES over a range is constrained over the same range by each evaluator
    ck.rule('R07.8', 'an indexed wire accessor that the generator writes inside a range loop (wire_output(i) for i in 0..12) is used by every evaluator inside a loop of the same length: a constraint loop narrowed to a sub-range leaves the remaining generated wires unpinned')
    nrng = 0
    for g in sorted(gates, key=lambda x: x['short']):
        if g['short'] in NO_LOCAL_CONSTRAINTS:
            continue
        gen = set()
        for ge in g['gens']:
            if ge.name == 'run_once':
                gen |= accessor_ranges(F, ge, g['accs'], written_only=True)
        if not gen:
            continue
        evs = []
        for nm in ('eval_unfiltered', 'eval_unfiltered_circuit', 'eval_unfiltered_base_one'):
            f = g['fns'].get(nm)
            if f is not None and not is_stub(f):
                evs.append(f)
        if g['packed'] is not None:
            evs.append(g['packed'])
        for f in evs:
            have = accessor_ranges(F, f, g['accs'], written_only=False)
            for acc, ln in sorted(gen):
                if ln == '?':
                    continue
                nrng += 1
                ok = (acc, ln) in have
                ck.ob('R07.8', 'range:%s:%s:%s' % (g['short'], f.name, acc), ok, 'used over a range of length %s like in the generator' % ln if ok else
                      'RANGE NOT COVERED: the generator of %s writes %s(i) for a range of length %s, but %s uses it only over %s: the wires outside that range are generated but not pinned by this evaluator' %
                      (g['short'], acc, ln, f.qual, sorted(l for a, l in have if a == acc) or 'no range loop'), '%s:%d' % (f.file, f.line))
    ck.floor('R07.8', 'generator-written accessor ranges checked against evaluators', nrng, 20)
    # R07.7 Poseidon helper families (what the PoseidonGate evaluators call): index expressions and constant tables agree
    poseidon_families(F, ck)
    # R07.4
    one = [f for f in F.find('StridedConstraintConsumer::one', crate='plonky2')]
    if len(one) != 1:
        ck.ob('R07.4', 'anchor', False, 'ANCHOR-MISSING StridedConstraintConsumer::one')
    else:
        fl = flow.Flow(F, one[0])
        has_unsafe = any(x.get('k') == 'Block' and x.get('unsafe') for x in walk(one[0].body))
        guard = any(e.kind in ('assert', 'guard') for e in fl.events) or any(x.get('k') == 'If' and flow.panics(x.get('el') or x['th']) for x in walk(one[0].body))
        ck.ob('R07.4', 'consumer.bound', (not has_unsafe) or guard, 'bound check precedes the unsafe write' if guard else 'StridedConstraintConsumer::one writes through a raw pointer without a bound check', '%s:%d' % (one[0].file, one[0].line))
    ck.decided += ['generator-touched wires are constrained in every evaluator', 'evaluators agree on the constrained wire set and counter updates']
    ck.undecided += ['that constraints DETERMINE the outputs (algebra)', 'value equality of the four evaluators', 'degree bound', 'the emitted count of the base / packed / in-circuit evaluators (only compared structurally with the extension evaluator)']
    return 'Decides structural necessary conditions of C07 (wire coverage per evaluator, evaluator agreement). Algebraic determination, evaluator value-equality and degrees are not decided.'
