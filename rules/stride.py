"""Quotient-domain stride rule (R01.6 / R09.13).

The quotient is computed on a coset LDE of size  degree << quotient_degree_bits  while the committed oracles live on the full LDE of
size  degree << rate_bits  and are read with  get_lde_values(i, step)  (index i * step).  "The next row" of a committed polynomial
is therefore  next_step  positions further in the small domain, with   next_step * step == 1 << rate_bits .  Both factors are
written as shifts of one in this code base; the rule adds their exponents as polynomials and requires the sum to be the FRI rate
bits.  A stride taken from another quantity that happens to coincide in the standard configuration (1 << rate_bits, the quotient
degree factor itself) makes the prover divide a polynomial that is not the constraint polynomial: honest proofs stop verifying for
the configurations where the two differ."""
from . import poly
from .facts import walk, pat_binds

LDE_READS = ('get_lde_values', 'get_lde_values_packed')


def _strip(n):
    while isinstance(n, dict) and n.get('k') in ('Paren', 'Cast', 'Ref') and 'e' in n:
        n = n['e']
    return n


def check(F, ck, rid, q, crate):
    fns = [f for f in F.find(q, crate=crate) if f.body is not None]
    if len(fns) != 1:
        ck.ob(rid, 'anchor:%s:%s' % (crate, q), False, 'ANCHOR-MISSING %s in %s' % (q, crate))
        return 0
    fn = fns[0]
    E = poly.Ev(F)
    init, env = {}, {}
    for p in fn.params:
        for b in pat_binds(p):
            env[b['id']] = poly.sym('@' + b['n'])
    for x in walk(fn.body):
        if x.get('k') == 'Let' and 'i' in x and x['p'].get('k') == 'Bind':
            init[x['p']['id']] = x['i']
            try:
                env[x['p']['id']] = E.ev(fn, x['i'], env, 3)
            except poly.Unknown as ex:
                env[x['p']['id']] = ex

    def exponent(n, depth=0):
        """e such that the value is 1 << e (or degree-free shifts/divisions of such), else None"""
        n = _strip(n)
        if n.get('k') == 'Local' and n['id'] in init and depth < 4:
            return exponent(init[n['id']], depth + 1)
        if n.get('k') == 'Bin' and n['op'] == 'Shl':
            el = exponent(n['l'], depth + 1)
            if el is not None:
                try:
                    return poly.add(el, E.ev(fn, n['r'], env, 3))
                except poly.Unknown:
                    return None
        if n.get('k') == 'Bin' and n['op'] in ('Div', 'Mul'):
            el, er = exponent(n['l'], depth + 1), exponent(n['r'], depth + 1)
            if el is not None and er is not None:
                return poly.add(el, er, -1 if n['op'] == 'Div' else 1)
        if n.get('k') == 'Lit' and n.get('lk') == 'int' and int(n['v']) > 0 and int(n['v']) & (int(n['v']) - 1) == 0:
            return poly.const(int(n['v']).bit_length() - 1)
        return None

    sites = []
    for x in walk(fn.body):
        if x.get('k') == 'Bin' and x.get('op') == 'Rem':
            l = _strip(x['l'])
            if l.get('k') == 'Bin' and l.get('op') == 'Add':
                ops = [_strip(l['l']), _strip(l['r'])]
                st = [o for o in ops if o.get('k') == 'Local' and o['id'] in init]
                if len(st) == 1:
                    sites.append((x, st[0]))
    steps = {}
    for x in walk(fn.body):
        if x.get('k') == 'MCall' and x.get('n') in LDE_READS and len(x.get('a', [])) == 2:
            a = _strip(x['a'][1])
            steps.setdefault(a.get('id') if a.get('k') == 'Local' else id(a), a)
    n = 0
    for x, st in sites:
        if not steps:
            continue
        n += 1
        es = exponent(st)
        key = 'stride:%s:%s' % (crate, fn.qual)
        if es is None:
            ck.ob(rid, key, False, 'QUOTIENT-DOMAIN STRIDE: in %s the offset `%s` that selects the next row of the committed polynomials is not a shift 1 << k: '
                  'it must be exactly (1 << rate_bits) / step, a power of two, or the prover evaluates the constraints on rows that are not consecutive' % (fn.qual, st.get('n')), x.get('s'))
            continue
        bad = None
        for a in steps.values():
            ea = exponent(a)
            if ea is None:
                bad = 'the step `%s` passed to get_lde_values is not a shift 1 << k' % a.get('n', '?')
                break
            tot = poly.add(es, ea)
            okk = len(tot) == 1 and list(tot.values()) == [1] and len(list(tot)[0]) == 1 and list(tot)[0][0].split('.')[-1] == 'rate_bits'
            if not okk:
                bad = 'log2(%s) + log2(%s) = %s, not the FRI rate bits' % (st.get('n'), a.get('n', '?'), poly.show(tot))
                break
        ck.ob(rid, key, bad is None, 'next-row offset times oracle step is 1 << rate_bits' if bad is None else
              'QUOTIENT-DOMAIN STRIDE: in %s %s: the next row of a committed polynomial is 1 << rate_bits positions further in the full LDE, read with index * step, so the offset in the quotient domain '
              'must be (1 << rate_bits) / step; with another offset the prover builds the quotient from rows that are not consecutive, and honest proofs fail for every configuration where the two differ' % (fn.qual, bad), x.get('s'))
    return n
