"""C05 - FRI opening proofs attest only true low-degree evaluations (structural clauses)."""
from . import ob, tables_fri, flow, zips, pins
from .facts import walk, callee, parse_path


def run(F, ck, tier):
    E = ob.Engine(F, ck)
    ck.rule('R05.1', 'native FRI verifier obligation table: each soundness-critical check exists, is propagated, is fed by the right proof/challenge data and ranges over the whole sequence')
    ck.rule('R05.2', 'batch-FRI verifier obligation table (same rows + instance injection)')
    for spec in tables_fri.NATIVE:
        E.check('R05.1', spec)
    for spec in tables_fri.BATCH:
        E.check('R05.2', spec)
    # R05.3 combine consumes the instance
    ck.rule('R05.3', 'fri_combine_initial iterates all batches of the instance and all polynomials of each batch, reads openings through unsalted_eval, and subtracts the reduced opening of the same batch')
    for fq, inst in (('fri::verifier::fri_combine_initial', 'instance'), ('batch_fri::verifier::batch_fri_combine_initial', 'instances')):
        E.check('R05.3', dict(id='combine.unsalted:' + fq.split('::')[-1], fn=fq, kind='call', callee='unsalted_eval',
                              src=['p:proof', 'F:FriPolynomialInfo.oracle_index', 'F:FriPolynomialInfo.polynomial_index', 'F:FriParams.hiding', 'F:FriOracleInfo.blinding'],
                              ctx={'loop': ['F:FriInstanceInfo.batches']}, whole=True,
                              why='every polynomial of every batch is read from the opened leaves'))
        E.check('R05.3', dict(id='combine.sum:' + fq.split('::')[-1], fn=fq, kind='assign', var='sum',
                              src=['c:unsalted_eval', 'c:reduce', 'F:PrecomputedReducedOpenings.reduced_openings_at_point', 'F:FriBatchInfo.point', 'p:subgroup_x', 'p:alpha'],
                              ctx={'loop': ['F:FriInstanceInfo.batches', 'F:PrecomputedReducedOpenings.reduced_openings_at_point']}, whole=True,
                              why='(reduced evals - reduced openings)/(x - point) accumulated per batch'))
    # R05.5 schedule bound checked where parameters are made
    ck.rule('R05.5', 'the places that derive FriParams for proving compare total_arities() with degree_bits + rate_bits - cap_height')
    for fq, crate in (('CircuitBuilder::try_build_with_options', 'plonky2'), ('starky::prover::prove', 'starky')):
        E.check('R05.5', dict(id='schedule.bound:' + fq.split('::')[-1], fn=fq, crate=crate, kind='assert_or_guard',
                              src=['c:total_arities', 'f:rate_bits', 'f:cap_height'],
                              why='arity schedule never folds below the cap height'))
    # R05.7 every length of the FRI proof is pinned for equality
    ck.rule('R05.7', 'every Vec / cap / polynomial / Merkle-path length of FriProof is pinned by an equality guard that must hold, seen from verify_batch_fri_proof (the validator is shared with verify_fri_proof)')
    pins.check(F, ck, 'R05.7', labels={'batch_fri'}, floor=8)
    # R05.6 unpinned zip partners
    ck.rule('R05.6', 'every zip in the FRI verifiers has both operand lengths pinned by an error-returning guard (or trusted)')
    n = 0
    e1 = F.one('fri::verifier::verify_fri_proof')
    e2 = F.one('batch_fri::verifier::verify_batch_fri_proof')
    if e1 is None or e2 is None:
        ck.ob('R05.6', 'anchor', False, 'ANCHOR-MISSING verify_fri_proof / verify_batch_fri_proof')
    else:
        n += zips.check_zips(ck, 'R05.6', F, e1, {'instance', 'params', 'challenges'}, ['fri/verifier.rs', 'fri/validate_shape.rs'])
        n += zips.check_zips(ck, 'R05.6', F, e2, {'instances', 'params', 'challenges', 'degree_bits'}, ['batch_fri/verifier.rs', 'fri/validate_shape.rs', 'fri/verifier.rs'])
    ck.floor('R05.6', 'zip operands with caller/proof-derived length', n, 6)
    ck.decided += ['every check of fri::verifier / batch_fri::verifier exists, is error-propagating, depends on the proof/challenge data it must depend on, and its loop covers the whole sequence']
    ck.undecided += ['sufficiency of the checks (algebra)', 'arity-schedule arithmetic', 'prover completeness']
    return ('Decides structural necessary conditions of C05 on the native FRI and batch-FRI verifiers: presence, propagation, data dependence and full iteration of each check. '
            'Does not decide that the checks are sufficient nor any numeric clause.')
