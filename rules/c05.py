"""C05 - FRI opening proofs attest only true low-degree evaluations (structural clauses)."""
from . import ob, tables_fri, flow, zips, pins
from .facts import walk, callee, parse_path


def run(F, ck, tier):
    E = ob.Engine(F, ck)
    ck.rule('R05.1', 'native FRI verifier obligation table: each soundness-critical check exists, is propagated, is fed by the right proof/challenge data and ranges over the whole sequence')
    ck.rule('R05.2', 'batch-FRI verifier obligation table (same rows + instance injection)')
    for spec in tables_fri.NATIVE:
        E.check('R05.1', spec)
    for spec in tables_fri.BATCH:
        E.check('R05.2', spec)
    # R05.3 combine consumes the instance
    ck.rule('R05.3', 'fri_combine_initial iterates all batches of the instance and all polynomials of each batch, reads openings through unsalted_eval, and subtracts the reduced opening of the same batch')
    for fq, inst in (('fri::verifier::fri_combine_initial', 'instance'), ('batch_fri::verifier::batch_fri_combine_initial', 'instances')):
        E.check('R05.3', dict(id='combine.unsalted:' + fq.split('::')[-1], fn=fq, kind='call', callee='unsalted_eval',
                              src=['p:proof', 'F:FriPolynomialInfo.oracle_index', 'F:FriPolynomialInfo.polynomial_index', 'F:FriParams.hiding', 'F:FriOracleInfo.blinding'],
                              ctx={'loop': ['F:FriInstanceInfo.batches']}, whole=True,
                              why='every polynomial of every batch is read from the opened leaves'))
        E.check('R05.3', dict(id='combine.sum:' + fq.split('::')[-1], fn=fq, kind='assign', var='sum',
                              src=['c:unsalted_eval', 'c:reduce', 'F:PrecomputedReducedOpenings.reduced_openings_at_point', 'F:FriBatchInfo.point', 'p:subgroup_x', 'p:alpha'],
                              ctx={'loop': ['F:FriInstanceInfo.batches', 'F:PrecomputedReducedOpenings.reduced_openings_at_point']}, whole=True,
                              why='(reduced evals - reduced openings)/(x - point) accumulated per batch'))
    # R05.5 schedule bound checked where parameters are made
    ck.rule('R05.5', 'the places that derive FriParams for proving compare total_arities() with degree_bits + rate_bits - cap_height')
    for fq, crate in (('CircuitBuilder::try_build_with_options', 'plonky2'), ('starky::prover::prove', 'starky')):
        E.check('R05.5', dict(id='schedule.bound:' + fq.split('::')[-1], fn=fq, crate=crate, kind='assert_or_guard',
                              src=['c:total_arities', 'f:rate_bits', 'f:cap_height'],
                              why='arity schedule never folds below the cap height'))
    # R05.7 every length of the FRI proof is pinned for equality
    ck.rule('R05.7', 'every Vec / cap / polynomial / Merkle-path length of FriProof is pinned by an equality guard that must hold, seen from verify_batch_fri_proof (the validator is shared with verify_fri_proof)')
    pins.check(F, ck, 'R05.7', labels={'batch_fri'}, floor=8)
    # R05.6 unpinned zip partners
    ck.rule('R05.6', 'every zip in the FRI verifiers has both operand lengths pinned by an error-returning guard (or trusted)')
    n = 0
    e1 = F.one('fri::verifier::verify_fri_proof')
    e2 = F.one('batch_fri::verifier::verify_batch_fri_proof')
    if e1 is None or e2 is None:
        ck.ob('R05.6', 'anchor', False, 'ANCHOR-MISSING verify_fri_proof / verify_batch_fri_proof')
    else:
        n += zips.check_zips(ck, 'R05.6', F, e1, {'instance', 'params', 'challenges'}, ['fri/verifier.rs', 'fri/validate_shape.rs'])
        n += zips.check_zips(ck, 'R05.6', F, e2, {'instances', 'params', 'challenges', 'degree_bits'}, ['batch_fri/verifier.rs', 'fri/validate_shape.rs', 'fri/verifier.rs'])
    ck.floor('R05.6', 'zip operands with caller/proof-derived length', n, 6)
    # ---------------------------------------------------------------- R05.8 the constant-arity schedule stops at the cap
    ck.rule('R05.8', 'ConstantArityBits schedules another reduction only while (degree_bits + rate_bits - arity_bits) - cap_height >= 0, i.e. the layer that would be committed is not smaller than the cap (comparison normalised algebraically)')
    from . import poly
    ra = [f for f in F.find('FriReductionStrategy::reduction_arity_bits', crate='plonky2') if f.body is not None]
    if not ra:
        ck.ob('R05.8', 'anchor', False, 'ANCHOR-MISSING FriReductionStrategy::reduction_arity_bits')
    else:
        want = {('@degree_bits',): 1, ('@rate_bits',): 1, ('@arity_bits',): -1, ('@cap_height',): -1}
        diffs = poly.cmp_diffs(poly.Ev(F), ra[0])
        capd = [(d, n) for d, n in diffs if any('@cap_height' in m for m in d)]
        okc = any(d == want for d, n in capd)
        ck.ob('R05.8', 'schedule.cap-guard', okc, 'guard: degree_bits + rate_bits - arity_bits - cap_height >= 0' if okc else
              'SCHEDULE GUARD: the ConstantArityBits loop compares with the cap height as %s >= 0 instead of degree_bits + rate_bits - arity_bits - cap_height >= 0: for arity_bits > cap_height '
              'a reduction is scheduled whose layer has fewer leaves than the cap, and the prover panics when it builds that Merkle tree' % ([poly.show(d) for d, n in capd] or 'nothing'),
              capd[0][1].get('s') if capd else '%s:%d' % (ra[0].file, ra[0].line))
    # ---------------------------------------------------------------- R05.9 batch FRI mixes a smaller instance in with an independent weight
    ck.rule('R05.9', 'when batch FRI folds the next (smaller) instance into the running codeword, the fresh evaluation enters by a final ADDITION and is not itself multiplied by the round challenge: folded * beta + fresh. '
                     '(folded + fresh) * beta gives both the same weight, so correlated non-low-degree functions cancel')

    def _has_beta(n):
        return any((y.get('k') == 'Local' and y.get('n') == 'beta') or (y.get('k') == 'Field' and y.get('n') == 'fri_betas') for y in walk(n))

    def _bare(n):
        while n.get('k') in ('Un', 'Ref', 'Paren'):
            n = n['e']
        return n.get('k') == 'Local'
    nmix = 0
    for q, kind in (('batch_fri::verifier::batch_fri_verifier_query_round', 'native'), ('batch_fri::prover::batch_fri_committed_trees', 'native'),
                    ('CircuitBuilder::batch_fri_verifier_query_round', 'circuit')):
        fs = [f for f in F.find(q, crate='plonky2') if f.body is not None and 'batch_fri' in f.file]
        if len(fs) != 1:
            ck.ob('R05.9', 'anchor:' + q, False, 'ANCHOR-MISSING %s (%d)' % (q, len(fs)))
            continue
        fn = fs[0]
        if kind == 'native':
            # outermost arithmetic nodes that mention the round challenge together with another operand
            tops = []

            def rec(n, inside):
                if isinstance(n, list):
                    for x in n:
                        rec(x, inside)
                    return
                if not isinstance(n, dict):
                    return
                arith = n.get('k') == 'Bin' and n.get('op') in ('Add', 'Mul', 'Sub')
                if arith and not inside and _has_beta(n):
                    tops.append(n)
                for k_, v in n.items():
                    if isinstance(v, (dict, list)):
                        rec(v, inside or arith)
            rec(fn.body, False)
            tops = [t for t in tops if not (t['op'] == 'Mul' and (_bare(t['l']) and _bare(t['r'])) and False)]
            for t in tops:
                nmix += 1
                okm = t['op'] == 'Add' and ((_bare(t['l']) and not _has_beta(t['l'])) or (_bare(t['r']) and not _has_beta(t['r'])))
                ck.ob('R05.9', 'mix:%s#%d' % (fn.qual, nmix), okm, 'folded * beta + fresh' if okm else
                      'BATCH FOLD-IN WITHOUT INDEPENDENT WEIGHT: in %s the expression that involves the round challenge is not of the form folded * beta + fresh (the fresh evaluation alone as one summand): '
                      'the instance folded in shares its random weight with the running codeword' % fn.qual, t.get('s'))
        else:
            for blk in walk(fn.body):
                if blk.get('k') != 'Block':
                    continue
                ass = [s_ for s_ in blk.get('st', []) if s_.get('k') == 'Assign' and s_['l'].get('k') == 'Local' and s_['l'].get('n') == 'old_eval' and s_['r'].get('k') == 'MCall' and
                       s_['r'].get('n') in ('mul_extension', 'add_extension', 'mul_add_extension', 'arithmetic_extension')]
                if not ass or not any(_has_beta(s_['r']) for s_ in ass):
                    continue
                nmix += 1
                last = ass[-1]['r']
                okm = (last['n'] == 'add_extension' and not _has_beta(last) and any(_bare(a) and a.get('n') != 'old_eval' for a in last['a'])) or \
                      (last['n'] == 'mul_add_extension' and len(last['a']) == 3 and _bare(last['a'][2]) and not _has_beta(last['a'][2]))
                ck.ob('R05.9', 'mix:%s#%d' % (fn.qual, nmix), okm, 'folded * beta + fresh' if okm else
                      'BATCH FOLD-IN WITHOUT INDEPENDENT WEIGHT: in %s the last operation on old_eval in the mix-in block is not the addition of the fresh evaluation alone' % fn.qual, last.get('s'))
    ck.floor('R05.9', 'mix-in expressions (prover, native verifier, circuit)', nmix, 3)
    ck.decided += ['every check of fri::verifier / batch_fri::verifier exists, is error-propagating, depends on the proof/challenge data it must depend on, and its loop covers the whole sequence']
    ck.undecided += ['sufficiency of the checks (algebra)', 'arity-schedule arithmetic', 'prover completeness']
    return ('Decides structural necessary conditions of C05 on the native FRI and batch-FRI verifiers: presence, propagation, data dependence and full iteration of each check. '
            'Does not decide that the checks are sufficient nor any numeric clause.')
